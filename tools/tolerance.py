#!/usr/bin/env python3
"""False-alarm test: apply a patch that is meant to preserve every property to a scratch copy of /repo and run every
quick check against it; any exit code other than 0 is reported.   usage: tolerance.py <patch.diff>... """
import json
import os
import shutil
import subprocess
import sys
import time
import hashlib
import glob

VERIF = os.path.dirname(os.path.dirname(os.path.abspath(__file__)))
props = ['C%02d' % i for i in range(1, 21)]
for patch in sys.argv[1:]:
    scratch = os.path.join(os.path.expanduser('~'), '.cache', 'educe-verif-tol-%d' % os.getpid())
    shutil.rmtree(scratch, ignore_errors=True)
    subprocess.check_call(['rsync', '-a', '--exclude', 'target', '--exclude', '.git', '/repo/', scratch + '/'])
    subprocess.check_call(['git', 'init', '-q'], cwd=scratch)
    if subprocess.call(['git', 'apply', '--whitespace=nowarn', os.path.abspath(patch)], cwd=scratch) != 0:
        print('PATCH-DOES-NOT-APPLY', patch)
        continue
    env = dict(os.environ, EDUCE_REPO=scratch, VERIF_EVIDENCE_DIR=os.path.join(scratch, '.evidence'), VERIF_REPLAY_DIR=os.path.join(VERIF, 'build', 'tol-replays'))
    tag = hashlib.sha1(os.path.abspath(scratch).encode()).hexdigest()[:10]
    bad = []
    t0 = time.time()
    for p in props:
        r = subprocess.run([os.path.join(VERIF, 'check'), p], env=env, cwd=VERIF, stdout=subprocess.PIPE, stderr=subprocess.PIPE)
        if r.returncode != 0:
            out = r.stdout.decode()
            first = [l for l in out.splitlines() if l.startswith('  ')][:3]
            bad.append((p, r.returncode, first, r.stderr.decode()[-300:] if r.returncode == 2 else ''))
    print('%s: %s (%.0fs)' % (os.path.basename(patch), 'NO ALARM' if not bad else 'ALARMS ' + json.dumps(bad)[:1500], time.time() - t0), flush=True)
    shutil.rmtree(scratch, ignore_errors=True)
    for d in glob.glob(os.path.join(VERIF, 'build', '*' + tag + '*')):
        shutil.rmtree(d, ignore_errors=True) if os.path.isdir(d) else os.remove(d)
