#!/usr/bin/env python3
"""Rewrite the numeric columns (states, inner evaluations, wall) of the table in DESIGN.md §7.2 from evidence/*.json."""
import json
import os
import re

V = os.path.dirname(os.path.dirname(os.path.abspath(__file__)))
p = os.path.join(V, 'DESIGN.md')
s = open(p).read()


def fmt(n):
    if n >= 1000000:
        return '%.1f M' % (n / 1e6)
    return '{:,}'.format(n).replace(',', ' ')


def row(m):
    pid = m.group(1)
    e = json.load(open(os.path.join(V, 'evidence', pid + '.json')))
    c = e['coverage']
    cells = m.group(0).split(' | ')
    cells[2] = fmt(c['states'])
    cells[3] = fmt(c.get('evaluations', 0))
    cells[4] = '%d s' % round(e.get('wall_s', 0))
    return ' | '.join(cells)


a = s.index('### 7.2 ')
b = s.index('### 7.3 ')
sec = re.sub(r'^\| (C\d\d) \| [^\n]*$', row, s[a:b], flags=re.M)
open(p, 'w').write(s[:a] + sec + s[b:])
