#!/usr/bin/env python3
"""Confirm every candidate seeded change: in a scratch worktree of /repo (outside /repo and /verif)
  1. demo passes on the clean tree, 2. with the patch the repository's 271 tests still pass, 3. with the patch the demo fails.
usage: confirm_seeds.py <candidates dir> <out json> [names...]"""
import glob
import json
import os
import shutil
import subprocess
import sys

src, out = sys.argv[1], sys.argv[2]
only = sys.argv[3:]
WT = '/tmp/seedconfirm/wt'
ENV = dict(os.environ, CARGO_NET_OFFLINE='true', CARGO_TARGET_DIR='/tmp/seedconfirm/target')


def sh(cmd, cwd=WT, timeout=1800):
    p = subprocess.run(cmd, cwd=cwd, shell=isinstance(cmd, str), stdout=subprocess.PIPE, stderr=subprocess.STDOUT, env=ENV, timeout=timeout)
    return p.returncode, p.stdout.decode('utf-8', 'replace')


def clean():
    sh('git checkout -q -- . && git clean -fdq -e Cargo.lock')


def run_demo(d):
    """returns True if the demonstration passes"""
    if os.path.exists(os.path.join(d, 'demo.sh')):
        rc, o = sh(['sh', os.path.join(d, 'demo.sh'), WT])
        return rc == 0, o[-600:]
    shutil.copy(os.path.join(d, 'demo.rs'), os.path.join(WT, 'tests', 'seed_demo.rs'))
    rc, o = sh('cargo test --offline --test seed_demo 2>&1 | tail -25')
    ok = 'test result: ok' in o and 'FAILED' not in o and 'error' not in o.split('test result')[0][-200:]
    os.remove(os.path.join(WT, 'tests', 'seed_demo.rs'))
    return ok, o[-600:]


os.makedirs('/tmp/seedconfirm', exist_ok=True)
if not os.path.exists(WT):
    subprocess.check_call(['git', '-C', '/repo', 'worktree', 'add', '-q', '--detach', WT, 'HEAD'])
    shutil.copy('/repo/Cargo.lock', WT)
res = json.load(open(out)) if os.path.exists(out) else {}
for d in sorted(glob.glob(os.path.join(src, '*', '*'))):
    name = '%s-%s' % (os.path.basename(os.path.dirname(d)), os.path.basename(d))
    if not os.path.exists(os.path.join(d, 'patch.diff')) or (only and name not in only) or (name in res and res[name].get('confirmed')):
        continue
    clean()
    r = {}
    r['demo_clean_pass'], r['demo_clean_out'] = run_demo(d)
    clean()
    rc, o = sh(['git', 'apply', '--whitespace=nowarn', os.path.join(d, 'patch.diff')])
    if rc != 0:
        rc, o = sh(['patch', '-p1', '--fuzz=3', '-i', os.path.join(d, 'patch.diff')])
    r['applies'] = rc == 0
    if rc == 0:
        rc, o = sh('cargo nextest run --workspace --no-fail-fast --offline 2>&1 | tail -3')
        r['suite'] = o.strip().splitlines()[-1] if o.strip() else ''
        r['suite_271'] = '271 passed' in o and 'failed' not in o.split('Summary')[-1]
        ok, o2 = run_demo(d)
        r['demo_patched_fails'] = not ok
        r['demo_patched_out'] = o2
    r['confirmed'] = bool(r.get('demo_clean_pass') and r.get('applies') and r.get('suite_271') and r.get('demo_patched_fails'))
    res[name] = r
    json.dump(res, open(out, 'w'), indent=1)
    print(name, 'CONFIRMED' if r['confirmed'] else 'NOT CONFIRMED', {k: v for k, v in r.items() if not k.endswith('_out')}, flush=True)
clean()
