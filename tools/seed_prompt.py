#!/usr/bin/env python3
"""Write the task files for a round of sub-agent seeded changes: tools/seed_prompt.py <round dir> <ID> [<ID> ...]
Each sub-agent gets only the text of one property, its own scratch worktree of /repo (created here under <round dir>/<ID>) and the one-line
summaries of the changes earlier rounds produced for that property (so that it does not repeat them); nothing else from /verif."""
import json
import os
import shutil
import subprocess
import sys

BASE = r'''You are helping test a verification tool by producing realistic *seeded defects* for the Rust crate `educe` (a procedural-macro crate that derives Debug, Clone, Copy, PartialEq, Eq, PartialOrd, Ord, Hash, Default, Deref, DerefMut, Into with per-field attributes).

Your private scratch checkout of the crate is the git worktree at {DIR}/{ID} (work ONLY there; never touch /repo or /verif; there is no network: always pass --offline to cargo, e.g. `cargo nextest run --workspace --no-fail-fast --offline` or `cargo test --offline`; the crate's README.md and src/lib.rs docs describe every attribute).

Here is a semantic property the crate is supposed to satisfy:

----
{ID}: {TITLE}

{STATEMENT}

Quantified over: {QUANT}

----

Task: produce TWO different, independent source changes (mutants A and B) to the crate's src/ (not its tests) such that each one
  1. still compiles, and the crate's entire existing test suite still passes (all 271 tests: run `cargo nextest run --workspace --no-fail-fast --offline` in the worktree and check the summary says 271 passed),
  2. breaks the property above — for some input the property quantifies over, the behaviour is now wrong,
  3. is *realistic and subtle*: the kind of slip a maintainer could make in a refactor (wrong index/cursor, branch that handles one shape differently, swapped arguments, dropped element in one arm, stale/shared state, off-by-one, wrong fallback, missing check), and it needs something specific to manifest — an unusual input shape, a particular combination of attributes, a multi-field/multi-variant arrangement, a specific value pair, or two cooperating sites that each look fine alone — NOT something ordinary use would expose at once (the existing tests must not notice it). Prefer changes located in different files/handlers for A and B and of different nature.
  4. comes with a demonstration: a self-contained Rust integration test file (to be dropped into the crate's tests/ directory, e.g. tests/seed_demo.rs, using `use educe::Educe;`) that FAILS (assertion failure, or fails to compile if the property is about compiling/rejecting) with the change applied and PASSES on the unmodified worktree. If the property is about the macro rejecting/accepting input or about compile errors, the demonstration may instead be a small shell script plus .rs file that invokes cargo and checks the outcome; say exactly how to run it (convention: `sh demo.sh <checkout dir>` exits 0 when the property holds and 1 when it is broken, demo.rs sits next to demo.sh, and the script removes whatever it copied into the checkout).

Procedure for each mutant: start from a clean worktree (`git -C {DIR}/{ID} checkout -- . && git -C {DIR}/{ID} clean -fdq -e target -e Cargo.lock`), write the demo, confirm the demo passes on the clean tree, apply your change, confirm the 271 tests pass AND the demo now fails, then save:
  {DIR}/out/{ID}/A/patch.diff   (output of `git -C {DIR}/{ID} diff -- src Cargo.toml`, must apply with `git apply` to a clean checkout)
  {DIR}/out/{ID}/A/demo.rs      (the demonstration test file; plus demo.sh if needed)
  {DIR}/out/{ID}/A/meta.json    ({{"property": "...", "summary": one-sentence description of the change, "needs": what specific input/combination is needed for it to manifest, "files": [...], "ran": the commands you ran and their observed results with and without the change}})
and the same under {DIR}/out/{ID}/B/. Finally restore the worktree to clean state (git checkout -- . ; remove your demo from tests/). Do not delete the worktree's target/ directory between steps (rebuilds are slow), but do not leave any other files behind.

Constraints: do not change tests/, do not add dependencies, do not make the change depend on environment variables or randomness-by-design unless the property itself is about determinism. The change must be unconditional Rust source. Keep each patch small (a few lines). If after serious effort you can only produce one mutant, deliver that one and say so.

Report back briefly: for A and B, the summary, what is needed to manifest, and the confirmation results.


IMPORTANT — these mutants were already produced for this property in earlier rounds; do NOT repeat these ideas or close variants:
{PREV}

This round has a special focus: produce mutants that only manifest on LARGER or MORE UNUSUAL inputs than someone testing with small, simple examples would try first, while behaving perfectly on small inputs (1-3 fields, 1-3 variants, one or two attributes, a single `<T>`). Aim, for example, at: a defect that depends on an *interaction* of three or more attributes at different levels (type + variant + field) on one item; on a particular *type syntax* of a field (references, tuples, arrays, parenthesised types, trait objects, fn pointers, paths with generic arguments, qualified paths, macro types, PhantomData); on several generic parameters of different kinds with bounds / defaults / where-clauses; on #[repr] or explicit discriminants (including negative or very large ones); on a *count* being a particular number (exactly 4, 7, 8, 16, more than 9, more than 255); on two items being expanded one after the other; on attributes spread over several #[educe(...)] lines or mixed with non-educe attributes (doc comments, #[cfg], #[allow]); on unusual-but-documented spellings (string forms, `name(..)` list forms, negative numbers, trailing commas); on unions; on empty shapes (zero-field tuple/struct variants, empty enums); on field or variant *names* (raw identifiers, names equal to other fields' generated bindings, very long names, non-ASCII identifiers); on specific *values* (extremes, NaN-like incomparable values, equal-but-distinguishable values); on the *environment* of the derive (surrounding items, traits or macros in scope, crate attributes such as #![no_std] or lint levels). The two mutants should be of different nature from each other. As before: all 271 existing tests must still pass and each mutant needs a demo that passes on the clean tree and fails with the patch.
'''

rdir = sys.argv[1]
props = {json.loads(l)['id']: json.loads(l) for l in open('/verif/properties.jsonl')}
os.makedirs(os.path.join(rdir, 'out'), exist_ok=True)
for pid in sys.argv[2:]:
    p = props[pid]
    prev = []
    for base in ('/verif/seeded', '/verif/seeded-obsolete'):
        for d in sorted(os.listdir(base)):
            if d.startswith(pid + '-') and 'revert' not in d:
                m = json.load(open(os.path.join(base, d, 'meta.json')))
                prev.append('- ' + (m.get('summary') or '')[:420].replace('\n', ' '))
    txt = BASE.format(DIR=rdir, ID=pid, TITLE=p['title'], STATEMENT=p['statement'], QUANT=p['quantifier']['text'], PREV='\n'.join(prev))
    open(os.path.join(rdir, pid + '.PROMPT.txt'), 'w').write(txt)
    wt = os.path.join(rdir, pid)
    if not os.path.exists(wt):
        subprocess.check_call(['git', '-C', '/repo', 'worktree', 'add', '-q', '--detach', wt, 'HEAD'])
        shutil.copy('/repo/Cargo.lock', wt)
    os.makedirs(os.path.join(rdir, 'out', pid), exist_ok=True)
    print('prepared', pid, len(prev), 'earlier summaries')
