"""C20 — union impls are byte-wise and need an explicit `unsafe`."""
import itertools

from ..core import shash, Case

# (id, [(field type)], size, generics decl, instantiation)
UNIONS = [
    ('u8', ['u8'], 1, '', ''),
    ('u8+a1', ['u8', '[u8; 1]'], 1, '', ''),
    ('u16', ['u16'], 2, '', ''),
    ('u8+u16', ['u8', 'u16'], 2, '', ''),
    ('a2+u8', ['[u8; 2]', 'u8'], 2, '', ''),
    ('u32', ['u32'], 4, '', ''),
    ('a4+u16', ['[u8; 4]', 'u16'], 4, '', ''),
    ('u32+u16+u8', ['u32', 'u16', 'u8'], 4, '', ''),
    ('a8+u32', ['[u8; 8]', 'u32', 'u64'], 8, '', ''),
    ('a16x', ['[u16; 4]', 'u8'], 8, '', ''),
    ('a6', ['[u16; 3]', 'u16'], 6, '', ''),
    ('five', ['u32', '[u8; 4]', 'u16', '[u16; 2]', 'u8'], 4, '', ''),
    ('a16', ['[u8; 16]', 'u64', '[u32; 4]', 'u128'], 16, '', ''),
    # tail padding: size_of::<Self>() exceeds the widest field (the size is rounded up to the alignment)
    ('pad3', ['[u8; 3]', 'u16'], 4, '', '', None),
    ('pad5C', ['[u8; 5]', 'u32', '(u8, u8)', 'bool'], 8, '', '', 'C'),
    ('pad5', ['u32', '[u8; 5]'], 8, '', '', None),
    ('pad9', ['u64', '[u8; 9]'], 16, '', '', 'C'),
    ('align16', ['u8', 'u16', 'u32', 'u64'], 16, '', '', 'C, align(16)'),
    ('align4', ['u8'], 4, '', '', 'align(4)'),
    ('Gpad', ['[u8; CN]', 'T'], 4, '<T: Copy, const CN: usize>', '<u16, 3>', None),
    ('G', ['T', '[u8; 2]'], 2, '<T: Copy>', '<u16>'),
    # bounds in a where-clause (and one the field types need for well-formedness)
    ('Gw', ['T', '[u8; 2]'], 2, '<T> where T: Copy', '<u16>'),
    ('Gassoc', ['<T as Assoc>::Out', 'u8'], 2, '<T> where T: Assoc, <T as Assoc>::Out: Copy', '<u8>'),
    # a parameter named like the hasher parameter the Hash template would pick first
    ('GH', ['[__H; 2]', 'u16'], 2, '<__H: Copy>', '<u8>'),
    ('GHc', ['[u8; __H]', 'u16'], 2, '<const __H: usize>', '<2>'),
    # zero-sized unions: the one value still goes through every impl (Hash feeds the empty slice, i.e. its length prefix)
    ('zst', ['()', '[u16; 0]'], 0, '', ''),
    ('zstG', ['[T; 0]', '()'], 0, '<T: Copy>', '<u32>'),
    ('G2', ["&'a [T; 0]", 'usize'], 8, "<'a, T: Copy>", "<'static, u16>"),
]
NAME = {'d': (None, 'Ty'), 'r1': ('name = Other', 'Other'), 'r2': ('name(Other)', 'Other'), 'r3': ('rename = "Other"', 'Other'),
        'o1': ('name = false', None), 'o2': ('name(false)', None), 'o3': ('name = ""', None)}
TRAITSETS = ['all', 'Debug', 'PartialEq', 'Hash', 'Clone', 'PartialEq+Eq+Hash']


def build(u, nm, ts, tier):
    uid, ftys, size, gdecl, ginst = u[:5]
    repr = u[5] if len(u) > 5 else None
    if uid == 'G2':
        # pointer-sized first field: only usable through the usize view; every byte pattern is a valid usize
        pass
    nmeta, shown = NAME[nm]
    metas = []
    has = lambda t: ts == 'all' or t in ts.split('+')
    if has('Debug'):
        metas.append('Debug(unsafe%s)' % (', ' + nmeta if nmeta else ''))
    if has('PartialEq'):
        metas.append('PartialEq(unsafe)')
    if has('Eq'):
        metas.append('Eq')
    if has('Hash'):
        metas.append('Hash(unsafe)')
    if has('Clone'):
        metas += ['Copy', 'Clone']
    if (shash(uid + nm + ts) % 2):
        attrs = '#[educe(%s)]\n' % ', '.join(metas)
    else:
        attrs = ''.join('#[educe(%s)]\n' % m for m in metas)
    fields = ''.join('    pub f%d: %s,\n' % (i, t) for i, t in enumerate(ftys))
    src = '#[derive(Educe)]\n%s%spub union Ty%s {\n%s}\n' % ('#[repr(%s)]\n' % repr if repr else '', attrs, gdecl, fields)
    inst = 'Ty' + ginst
    src += 'const SIZE: usize = %d;\n' % size
    src += ('fn mk(b: &[u8]) -> %s {\n    let mut a = [0u8; SIZE];\n    a.copy_from_slice(b);\n'
            '    unsafe { std::mem::transmute::<[u8; SIZE], %s>(a) }\n}\n') % (inst, inst)
    src += 'fn bytes(x: &%s) -> Vec<u8> {\n    unsafe { std::slice::from_raw_parts(x as *const %s as *const u8, SIZE) }.to_vec()\n}\n' % (inst, inst)
    ops = []
    ops.append('debug: %s' % ('Some(&|x: &%s, alt| if alt { format!("{:#?}", x) } else { format!("{:?}", x) })' % inst if has('Debug') else 'None'))
    ops.append('eq: %s' % ('Some(&|a: &%s, b: &%s| { let e = a == b; assert_eq!(e, !(a != b)); e })' % (inst, inst) if has('PartialEq') else 'None'))
    ops.append('hash: %s' % ('Some(&|x: &%s| trace_of(x).unwrap())' % inst if has('Hash') else 'None'))
    ops.append('clone: %s' % ('Some(&|x: &%s| x.clone())' % inst if has('Clone') else 'None'))
    singles = 70000 if tier == 'quick' else 70000
    pairs = 300 if tier == 'quick' else 70000
    if tier != 'quick' and size == 2 and not (uid == 'u16' and nm == 'd' and ts == 'PartialEq'):
        pairs = 300      # all 65 536^2 pairs of a two-byte union only once (4.3 G comparisons)
    src += 'pub fn check(r: &mut Rep) {\n    assert_eq!(std::mem::size_of::<%s>(), SIZE);\n' % inst
    src += '    let o = UnionOps { size: SIZE, mk: &mk, bytes: &bytes, name: %s, %s };\n' % ('Some("%s")' % shown if shown else 'None', ', '.join(ops))
    src += '    union_check(r, &o, %d, %d);\n' % (singles, pairs)
    if has('Clone'):
        src += '    r.ck(probe!(%s: Copy), 20, &|| "Copy is educed but the union is not Copy".to_string());\n' % inst
    src += '}\n'
    key = 'C20|%s|%s|%s' % (uid, nm, ts)
    return Case(key, src, {'union': uid, 'fields': ftys, 'size': size, 'name': nm, 'traits': ts}, expect='accept', run=True,
                depth=(nm != 'd') + (ts != 'all') + 1)


def build_noncopy():
    """Clone on a union requires Copy fields: for a generic union over ManuallyDrop<T> the impl must not apply to a non-Copy T"""
    src = ('#[derive(Educe)]\n#[educe(Copy, Clone)]\npub union Ty<T> {\n    pub f0: std::mem::ManuallyDrop<T>,\n    pub f1: u8,\n}\n'
           'pub fn check(r: &mut Rep) {\n'
           '    r.ck(probe!(Ty<u8>: Clone), 0, &|| "Ty<u8> is not Clone".to_string());\n'
           '    r.ck(probe!(Ty<u8>: Copy), 1, &|| "Ty<u8> is not Copy".to_string());\n'
           '    r.ck(!probe!(Ty<String>: Clone), 2, &|| "Ty<String> is Clone although its field is not Copy".to_string());\n'
           '    r.ck(!probe!(Ty<String>: Copy), 3, &|| "Ty<String> is Copy although its field is not Copy".to_string());\n'
           '    let x = Ty::<u8> { f1: 7 };\n    let y = x.clone();\n    r.ck(unsafe { y.f1 } == 7, 4, &|| "clone is not a copy".to_string());\n}\n')
    return Case('C20|noncopy', src, {'union': 'ManuallyDrop<T>'}, expect='accept', run=True, depth=1)


def build_default(nf, p, expr, nodefault=False):
    tys = ['u8', 'u16', 'u32'][:nf]
    if nodefault:
        # the other fields have types without Default: only the designated field's type may be asked for it
        others = ['fn(u8) -> u8', '[u16; 40]', "&'static No", '*const u8'][:nf - 1]
        tys = others[:p] + ['u8'] + others[p:]
    fields = ''
    for i, t in enumerate(tys):
        if i == p:
            fields += '    #[educe(%s)]\n' % ('Default' if expr is None else expr)
        fields += '    pub f%d: %s,\n' % (i, t)
    src = '#[derive(Educe)]\n#[educe(Default)]\npub union Ty {\n%s}\n' % fields
    want = '0' if expr is None else '9'
    src += 'pub fn check(r: &mut Rep) {\n    let x = Ty::default();\n    let got = unsafe { x.f%d };\n' % p
    src += '    r.ck(got == %s, 0, &|| format!("default().f%d = {}, expected %s", got));\n}\n' % (want, p, want)
    return Case('C20|default|%d|%d|%s%s' % (nf, p, expr, '|nodefault' if nodefault else ''), src, {'fields': nf, 'designated': p, 'expr': expr}, expect='accept', run=True, depth=1)


def generate(tier):
    cases = []
    for u in UNIONS:
        for nm in NAME:
            for ts in TRAITSETS:
                if nm != 'd' and ts not in ('all', 'Debug'):
                    continue
                if u[0] == 'G2' and ts not in ('all',):
                    continue
                cases.append(build(u, nm, ts, tier))
    cases.append(build_noncopy())
    for nf in (1, 2, 3):
        for p in range(nf):
            for expr in (None, 'Default = 9', 'Default(expression = 9)', 'Default(expr(4 + 5))'):
                cases.append(build_default(nf, p, expr))
                if nf > 1:
                    cases.append(build_default(nf, p, expr, nodefault=True))
    for p in range(5):
        cases.append(build_default(5, p, None, nodefault=True))
    # the designated field's type has an inherent `default()` that answers differently from its Default impl
    for nf, p in ((1, 0), (2, 0), (2, 1), (3, 1)):
        tys = ['u8', 'u16', 'u32'][:nf]
        tys[p] = 'Inh'
        fields = ''.join('%s    pub f%d: %s,\n' % ('    #[educe(Default)]\n' if (i == p and nf > 1) else '', i, t) for i, t in enumerate(tys))
        src = '#[derive(Educe)]\n#[educe(Default(new))]\npub union Ty {\n%s}\n' % fields
        src += ('pub fn check(r: &mut Rep) {\n    let x = Ty::default();\n    let got = unsafe { x.f%d };\n    r.ck(got == inh(0), 0, &|| format!("default().f%d = {:?}, the Default impl of the field type gives Inh(0)", got));\n'
                '    let y = Ty::new();\n    let got = unsafe { y.f%d };\n    r.ck(got == inh(0), 1, &|| format!("new().f%d = {:?}", got));\n}\n') % (p, p, p, p)
        cases.append(Case('C20|default|inherent|%d|%d' % (nf, p), src, {'fields': nf, 'designated': p, 'field_type': 'Inh'}, expect='accept', run=True, depth=1))
    # literal default expressions on the designated field at every position: whether the literal is converted is decided by the *designated* field's type,
    # whatever the types of the fields around it (integer / float primitives, user types with From<literal type>)
    lits = (('7', 'DI', 'DI(1007)'), ('7', 'i64', '7i64'), ('7', 'u8', '7u8'), ('1.5', 'DF', 'DF(1001.5)'), ('1.5', 'f32', '1.5f32'), ('7u8', 'u32', '7u32'), ("'c'", 'u32', "'c' as u32"), ('true', 'DB', 'DB(11)'),
            ('-40', 'DI', 'DI(960)'), ('-2.5f32', 'f64', '-2.5f64'))
    spell = ('Default = {e}', 'Default(expression = {e})', 'Default(expr = {e})', 'Default(expression({e}))')
    for li, (lit, fty, want) in enumerate(lits):
        for others in (('u8', 'i32'), ('f64', 'f32'), ('DI', 'DF'), ('u64', 'DB')):
            for p in range(3):
                tys = list(others)
                tys.insert(p, fty)
                sp = spell[(li + p) % 4].format(e=lit)
                fields = ''.join('%s    pub f%d: %s,\n' % ('    #[educe(%s)]\n' % sp if i == p else '', i, t) for i, t in enumerate(tys))
                src = '#[derive(Educe)]\n#[educe(Default(new))]\npub union Ty {\n%s}\n' % fields
                src += ('pub fn check(r: &mut Rep) {\n    let want: %s = %s;\n    let x = Ty::default();\n    let got = unsafe { x.f%d };\n    r.ck(got == want, 0, &|| format!("default().f%d = {:?}, expected {:?}", got, want));\n'
                        '    let y = Ty::new();\n    let got = unsafe { y.f%d };\n    r.ck(got == want, 1, &|| format!("new().f%d = {:?}, expected {:?}", got, want));\n}\n') % (fty, want, p, p, p, p)
                cases.append(Case('C20|default-literal|%s:%s|%s|%d' % (lit, fty, '+'.join(others), p), src, {'literal': lit, 'field_type': fty, 'other_fields': list(others), 'designated': p, 'spelling': sp}, expect='accept', run=True, depth=2))
    return cases


RULE = ('unions with 1..3 fields over {u8, [u8;1], [u8;2], u16, [u8;4], u32, [u8;8], u64, [u16;N], generic T: Copy, reference + '
        'usize} (sizes 1, 2, 4, 6, 8, 16), unions with tail padding ([u8;3]+u16, [u8;5]+u32, [u8;9]+u64, #[repr(align)], generic [u8;N]+T; with and without #[repr(C)]) x name {default, renamed (3 spellings), disabled (3 spellings)} x trait set '
        '{all together, each alone}; values: every byte pattern for sizes 1 and 2, each byte over {00, 01, FF} above; Debug against '
        'debug_tuple(name).field(&bytes) / the bare slice in both formats, == against byte equality on all pairs of the pair domain '
        '(all 65 536 pairs for size 1), the recorded Hasher trace against hashing the byte slice, clone bitwise, Copy probed; Clone '
        'on a union over ManuallyDrop<T> must not apply to a non-Copy T; Default initialises the designated field (also when the types of the other fields have no Default); the `unsafe` marker: every marker-less form (bare, empty list in each delimiter, name-only, `unsafe` not first) of Debug / PartialEq / Hash on a union must be refused with a diagnostic')


def reject_cases():
    out = []
    for fields, tag in (('a: u8', 'u1'), ('a: u8, b: u16', 'u2'), ('a: [u8; 4], b: u32, c: u16', 'u3')):
        for t in ('Debug', 'PartialEq', 'Hash'):
            forms = [t, '%s()' % t, '%s[]' % t, '%s{}' % t, '%s(,)' % t]
            if t == 'Debug':
                forms += ['Debug = Zz', 'Debug(name = Zz)', 'Debug(name = false)', 'Debug(name(Zz),)', 'Debug(name = Zz, unsafe)', 'Debug(name = false, unsafe)', 'Debug(name(Zz), unsafe,)']
            for f in forms:
                host = {'PartialEq': [f], 'Hash': [f], 'Debug': [f]}[t]
                for extra in ([], ['Copy', 'Clone']):
                    src = '#[derive(Educe)]\n#[educe(%s)]\npub union Ty { %s }\n' % (', '.join(extra + host), fields)
                    out.append(Case('C20|reject|%s|%s|%s' % (tag, f, '+'.join(extra)), src, {'attribute': f, 'fields': fields}, expect='reject', run=False, depth=1))
    return out


def check(v, tier):
    from .common import run_behavioural
    cases = generate(tier)
    run_behavioural(v, cases, 'C20', nontrivial_min=2, min_nontrivial_ratio=0.7, shard_size=12 if tier == 'quick' else 4, run_timeout=3000)
    from .common import run_rejects
    run_rejects(v, reject_cases(), 'C20')
    # every union impl in a crate that does not link std (the byte views and builders must come from ::core)
    from ..core import rt_run
    ns = []
    for uid, ftys, size, gdecl, ginst in [u[:5] for u in UNIONS if u[0] in ('u8+u16', 'a8+u32', 'pad5', 'G', 'Gw')]:
        for nm in ('d', 'r1', 'o1'):
            nmeta = NAME[nm][0]
            metas = ['Debug(unsafe%s)' % (', ' + nmeta if nmeta else ''), 'PartialEq(unsafe)', 'Eq', 'Hash(unsafe)', 'Copy', 'Clone', 'Default']
            fields = ''.join('    %spub f%d: %s,\n' % ('#[educe(Default)] ' if i == 0 and len(ftys) > 1 else '', i, t) for i, t in enumerate(ftys))
            for ms in ([', '.join(metas)], metas):
                src = '#[derive(Educe)]\n%spub union Ty%s {\n%s}\n' % (''.join('#[educe(%s)]\n' % m for m in ms), gdecl, fields)
                ns.append(Case('C20|no_std|%s|%s|%d' % (uid, nm, len(ms)), src, {'union': uid, 'environment': '#![no_std]'}, expect='accept', run=False, depth=1))
    nres = rt_run(ns, run=False, name='C20ns', shard_size=1000, prelude='#![no_std]\n#![allow(dead_code)]\npub mod sup {}\n')
    v.add_states(ns)
    for r in nres:
        v.cov['evaluations'] += 1
        if r.status != 'ok':
            v.violation(r.case, 'does not compile in a #![no_std] crate: %s' % '; '.join((d['code'] or '') + ' ' + d['msg'][:160] for d in r.errors()[:2]))
        else:
            v.cov['traces_validated_against_impl'] += 1
    return v.finish(RULE, {'bounds': {'tier': tier, 'fields': 3, 'max_size': 8}})
