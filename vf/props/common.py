"""Helpers shared by the per-property generators."""
from ..core import rt_run, guard

# attribute contexts: how a field's own meta is placed relative to an attribute of *another* educed trait
CTX = ['alone', 'sep_before', 'sep_after', 'list_before', 'list_after', 'foreign_before', 'foreign_after', 'foreign_between']
FOREIGN = ['#[doc = "d"]', '#[allow(unused)]', '#[cfg_attr(all(), allow(dead_code))]']


def place(own, other, ctx):
    """own / other: meta texts such as 'PartialEq(ignore)' (own may be None).  Returns attribute lines."""
    if ctx == 'foreign_before':      # attributes that are not educe's around the field's own one
        return FOREIGN + (['#[educe(%s)]' % own] if own else []) + (['#[educe(%s)]' % other] if other else [])
    if ctx == 'foreign_after':
        return (['#[educe(%s)]' % other] if other else []) + (['#[educe(%s)]' % own] if own else []) + FOREIGN
    if ctx == 'foreign_between':
        return (['#[educe(%s)]' % other] if other else []) + FOREIGN[:2] + (['#[educe(%s)]' % own] if own else []) + FOREIGN[2:]
    if ctx == 'alone' or other is None:
        return ['#[educe(%s)]' % own] if own else []
    if own is None:
        return ['#[educe(%s)]' % other]
    if ctx == 'sep_before':
        return ['#[educe(%s)]' % other, '#[educe(%s)]' % own]
    if ctx == 'sep_after':
        return ['#[educe(%s)]' % own, '#[educe(%s)]' % other]
    if ctx == 'list_before':
        return ['#[educe(%s, %s)]' % (other, own)]
    if ctx == 'list_after':
        return ['#[educe(%s, %s)]' % (own, other)]
    raise ValueError(ctx)


def run_behavioural(v, cases, name, nontrivial_min=2, shard_size=None, min_nontrivial_ratio=0.5,
                    max_blocked_ratio=0.1, run_timeout=600):
    """Execute run-cases, account coverage, turn disagreements into violations."""
    guard(len({c.key for c in cases}) == len(cases), 'duplicate case keys in ' + name)
    res = rt_run(cases, run=True, name=name, shard_size=shard_size, run_timeout=run_timeout)
    v.add_states(cases)
    nontriv = 0
    for r in res:
        if r.status != 'ok':
            v.cov['blocked'] += 1
            bs = v.notes.setdefault('blocked_samples', [])
            diag = [(d['code'] or '') + ' ' + d['msg'][:240] for d in r.errors()[:2]]
            if len(bs) < 8:
                bs.append({'key': r.case.key, 'status': r.status, 'diag': diag})
            if r.case.expect == 'accept':
                # a documented request whose expansion is refused or does not compile: the property cannot hold for this type
                # (this is primarily C01's finding; it is reported here too so that it cannot hide behind a skipped case)
                v.violation(r.case, 'the request is in the documented space but %s: %s' % (
                    {'educe_diag': 'educe refuses it', 'panic': 'the macro panics on it'}.get(r.status, 'the generated code does not compile (%s)' % r.status), ' ;; '.join(diag)))
            continue
        if not r.ran and r.case.run:
            raise RuntimeError('case %s compiled but did not report' % r.case.key)
        v.cov['traces_validated_against_impl'] += 1
        v.cov['evaluations'] += r.evals
        if r.outcomes >= nontrivial_min:
            v.cov['distinct_nontrivial'] += 1
            nontriv += 1
        if r.nfail:
            v.violation(r.case, '%d disagreements with the model; first: %s' % (r.nfail, ' ;; '.join(r.fails[:3])))
    n = len(cases)
    step = max(1, n // 6)
    for c in cases[::step][:6]:
        v.sample({'key': c.key, 'program': c.body[:1800]})
    if v.cov['blocked']:
        from ..core import log
        log('[%s] BLOCKED %d of %d programs do not compile (that is C01\'s business): %s' % (
            name, v.cov['blocked'], n, v.notes['blocked_samples'][:3]))
    guard(nontriv >= min_nontrivial_ratio * (n - v.cov['blocked']), 'too few non-trivial programs in %s (%d of %d)' % (name, nontriv, n))
    return res


def run_rejects(v, cases, name):
    """cases the property says must be refused: an educe diagnostic is required (accepted / panicked / failing only later = violation)"""
    if not cases:
        return
    res = rt_run(cases, run=False, name=name + 'rej', shard_size=1000)
    v.add_states(cases)
    for r in res:
        v.cov['evaluations'] += 1
        v.cov['traces_validated_against_impl'] += 1
        if any(d['kind'] == 'educe' for d in r.errors()) and r.status != 'panic':
            continue
        if r.status == 'ok':
            v.violation(r.case, 'the request must be refused with a diagnostic but was silently accepted')
        elif r.status == 'panic':
            v.violation(r.case, 'the macro panicked instead of reporting a diagnostic')
        else:
            v.violation(r.case, 'the request was not refused by educe; it only fails later in the compiler: %s' % '; '.join((d['code'] or '') + ' ' + d['msg'][:120] for d in r.errors()[:2]))


RAW = {'f0': 'r#type', 'f1': 'r#match', 'f2': 'r#fn', 'f3': 'r#loop', 'f4': 'r#struct'}


def rawify(case):
    """the same case with its named fields spelled as raw identifiers (f0 -> r#type, ...); None if the case has no named field"""
    import re
    from ..core import Case
    if not re.search(r'\bf[0-4]\b', case.body):
        return None
    body = re.sub(r'(?<![A-Za-z0-9_#.])f([0-4])\b(?!\()', lambda m: RAW['f' + m.group(1)], case.body)
    spec = dict(case.spec)
    spec['raw_identifiers'] = True
    return Case(case.key + '|raw', body, spec, case.expect, case.run, case.depth + 1, case.tags)
