"""Helpers shared by the per-property generators."""
from ..core import rt_run, guard

# attribute contexts: how a field's own meta is placed relative to an attribute of *another* educed trait
CTX = ['alone', 'sep_before', 'sep_after', 'list_before', 'list_after', 'foreign_before', 'foreign_after', 'foreign_between']
FOREIGN = ['#[doc = "d"]', '#[allow(unused)]', '#[cfg_attr(all(), allow(dead_code))]']


def place(own, other, ctx):
    """own / other: meta texts such as 'PartialEq(ignore)' (own may be None).  Returns attribute lines."""
    if ctx == 'foreign_before':      # attributes that are not educe's around the field's own one
        return FOREIGN + (['#[educe(%s)]' % own] if own else []) + (['#[educe(%s)]' % other] if other else [])
    if ctx == 'foreign_after':
        return (['#[educe(%s)]' % other] if other else []) + (['#[educe(%s)]' % own] if own else []) + FOREIGN
    if ctx == 'foreign_between':
        return (['#[educe(%s)]' % other] if other else []) + FOREIGN[:2] + (['#[educe(%s)]' % own] if own else []) + FOREIGN[2:]
    if ctx == 'alone' or other is None:
        return ['#[educe(%s)]' % own] if own else []
    if own is None:
        return ['#[educe(%s)]' % other]
    if ctx == 'sep_before':
        return ['#[educe(%s)]' % other, '#[educe(%s)]' % own]
    if ctx == 'sep_after':
        return ['#[educe(%s)]' % own, '#[educe(%s)]' % other]
    if ctx == 'list_before':
        return ['#[educe(%s, %s)]' % (other, own)]
    if ctx == 'list_after':
        return ['#[educe(%s, %s)]' % (own, other)]
    raise ValueError(ctx)


def run_behavioural(v, cases, name, nontrivial_min=2, shard_size=None, min_nontrivial_ratio=0.5,
                    max_blocked_ratio=0.1, run_timeout=600):
    """Execute run-cases, account coverage, turn disagreements into violations."""
    guard(len({c.key for c in cases}) == len(cases), 'duplicate case keys in ' + name)
    res = rt_run(cases, run=True, name=name, shard_size=shard_size, run_timeout=run_timeout)
    v.add_states(cases)
    nontriv = 0
    for r in res:
        if r.status != 'ok':
            v.cov['blocked'] += 1
            bs = v.notes.setdefault('blocked_samples', [])
            diag = [(d['code'] or '') + ' ' + d['msg'][:240] for d in r.errors()[:2]]
            if len(bs) < 8:
                bs.append({'key': r.case.key, 'status': r.status, 'diag': diag})
            if r.case.expect == 'accept':
                # a documented request whose expansion is refused or does not compile: the property cannot hold for this type
                # (this is primarily C01's finding; it is reported here too so that it cannot hide behind a skipped case)
                v.violation(r.case, 'the request is in the documented space but %s: %s' % (
                    {'educe_diag': 'educe refuses it', 'panic': 'the macro panics on it'}.get(r.status, 'the generated code does not compile (%s)' % r.status), ' ;; '.join(diag)))
            continue
        if not r.ran and r.case.run:
            raise RuntimeError('case %s compiled but did not report' % r.case.key)
        v.cov['traces_validated_against_impl'] += 1
        v.cov['evaluations'] += r.evals
        if r.outcomes >= nontrivial_min:
            v.cov['distinct_nontrivial'] += 1
            nontriv += 1
        if r.nfail:
            v.violation(r.case, '%d disagreements with the model; first: %s' % (r.nfail, ' ;; '.join(r.fails[:3])))
    n = len(cases)
    step = max(1, n // 6)
    for c in cases[::step][:6]:
        v.sample({'key': c.key, 'program': c.body[:1800]})
    if v.cov['blocked']:
        from ..core import log
        log('[%s] BLOCKED %d of %d programs do not compile (that is C01\'s business): %s' % (
            name, v.cov['blocked'], n, v.notes['blocked_samples'][:3]))
    guard(nontriv >= min_nontrivial_ratio * (n - v.cov['blocked']), 'too few non-trivial programs in %s (%d of %d)' % (name, nontriv, n))
    return res


def run_rejects(v, cases, name):
    """cases the property says must be refused: an educe diagnostic is required (accepted / panicked / failing only later = violation)"""
    if not cases:
        return
    res = rt_run(cases, run=False, name=name + 'rej', shard_size=1000)
    v.add_states(cases)
    for r in res:
        v.cov['evaluations'] += 1
        v.cov['traces_validated_against_impl'] += 1
        if any(d['kind'] == 'educe' for d in r.errors()) and r.status != 'panic':
            continue
        if r.status == 'ok':
            v.violation(r.case, 'the request must be refused with a diagnostic but was silently accepted')
        elif r.status == 'panic':
            v.violation(r.case, 'the macro panicked instead of reporting a diagnostic')
        else:
            v.violation(r.case, 'the request was not refused by educe; it only fails later in the compiler: %s' % '; '.join((d['code'] or '') + ' ' + d['msg'][:120] for d in r.errors()[:2]))


RAW = {'f0': 'r#type', 'f1': 'r#match', 'f2': 'r#fn', 'f3': 'r#loop', 'f4': 'r#struct'}


def rawify(case):
    """the same case with its named fields spelled as raw identifiers (f0 -> r#type, ...); None if the case has no named field"""
    import re
    from ..core import Case
    if not re.search(r'\bf[0-4]\b', case.body):
        return None
    body = re.sub(r'(?<![A-Za-z0-9_#.])f([0-4])\b(?!\()', lambda m: RAW['f' + m.group(1)], case.body)
    spec = dict(case.spec)
    spec['raw_identifiers'] = True
    return Case(case.key + '|raw', body, spec, case.expect, case.run, case.depth + 1, case.tags)


US = {'f0': 'x', 'f1': '_x', 'f2': '__x', 'f3': '_s_x', 'f4': '_o_x'}


def underscorify(case):
    """the same case with its named fields called x, _x, __x, _s_x, _o_x: names that differ by the prefixes templates use for their bindings"""
    import re
    from ..core import Case
    if not re.search(r'\bf[0-4]\b', case.body):
        return None
    body = re.sub(r'(?<![A-Za-z0-9_#.])f([0-4])\b(?!\()', lambda m: US['f' + m.group(1)], case.body)
    spec = dict(case.spec)
    spec['underscore_field_names'] = True
    return Case(case.key + '|us', body, spec, case.expect, case.run, case.depth + 1, case.tags)


# ---- field types of different syntactic kinds under the plain derive, against the standard derive on a twin
ZOO = [
    ('fnptr', 'fn(u8) -> u8', ['zoo_inc as fn(u8) -> u8', 'zoo_dec as fn(u8) -> u8']),
    ('fnptr-hr', "for<'x> fn(&'x u8) -> &'x u8", ["zoo_id as for<'x> fn(&'x u8) -> &'x u8", "zoo_id2 as for<'x> fn(&'x u8) -> &'x u8"]),
    ('ref', "&'static u8", ['&S1', '&S200']),
    ('refref', "&'static &'static u8", ['&&1u8', '&&200u8']),
    ('tuple', '(u8, bool)', ['(0, true)', '(1, false)', '(0, false)']),
    ('tuple1', '(u8,)', ['(0,)', '(1,)']),
    ('array', '[u8; 2]', ['[0, 1]', '[1, 0]', '[0, 0]']),
    ('array0', '[u8; 0]', ['[]']),
    ('option', 'Option<u8>', ['None', 'Some(0)', 'Some(1)']),
    ('box', 'Box<u8>', ['Box::new(0)', 'Box::new(1)']),
    ('paren', '(u8)', ['0', '1']),
    ('refparen', "&'static (u8)", ['&S1', '&S200']),
    ('ptr', '*const u8', ['&S1 as *const u8', '&S200 as *const u8']),
    ('wideptr-slice', '*const [u8]', ['&ZOO_DATA[..2] as *const [u8]', '&ZOO_DATA[..4] as *const [u8]', '&ZOO_DATA[1..3] as *const [u8]']),
    ('wideptr-str', '*const str', ['&ZOO_STR[..2] as *const str', '&ZOO_STR[..4] as *const str']),
    ('phantom', '::core::marker::PhantomData<Vec<u8>>', ['::core::marker::PhantomData']),
    ('vec', 'Vec<u8>', ['vec![]', 'vec![0]', 'vec![0, 1]']),
    ('str', "&'static str", ['""', '"a"', '"b"']),
    ('slice', "&'static [u8]", ['&[]', '&[0]', '&[1]']),
    ('unit', '()', ['()']),
    ('u128', 'u128', ['0', '1', 'u128::MAX']),
    ('i128', 'i128', ['i128::MIN', '-1', '0']),
    ('char', 'char', ["'a'", "'\\u{10FFFF}'"]),
    ('bool', 'bool', ['false', 'true']),
    ('result', 'Result<u8, bool>', ['Ok(0)', 'Err(false)', 'Err(true)']),
    ('reverse', 'std::cmp::Reverse<u8>', ['std::cmp::Reverse(0)', 'std::cmp::Reverse(1)']),
    ('macro', 'zoo_ty!()', ['0', '1']),
    ('qpath', '<u8 as ZooTr>::Out', ['0u16', '300u16']),
    ('generic-path', '::std::option::Option<::std::vec::Vec<(u8, u8)>>', ['None', 'Some(vec![])', 'Some(vec![(0, 1)])']),
    ('inherent-decoys', 'Inh', ['inh(0)', 'inh(1)', 'inh(2)']),
    ('tuple-with-marker', '(u8, ::core::marker::PhantomData<u16>)', ['(0, ::core::marker::PhantomData)', '(1, ::core::marker::PhantomData)']),
    ('tuple-with-unit', '((u8, u8), ())', ['((0, 1), ())', '((1, 0), ())', '((0, 0), ())']),
    ('array-of-tuples', '[(u8, bool); 2]', ['[(0, true), (1, false)]', '[(0, true), (1, true)]']),
    ('user-PhantomData', 'zoo_names::PhantomData<u8>', ['zoo_names::PhantomData(0)', 'zoo_names::PhantomData(1)', 'zoo_names::PhantomData(2)']),
    ('user-Option', 'zoo_names::Option<u8>', ['zoo_names::Option(0)', 'zoo_names::Option(1)']),
    ('user-Vec-String', '(zoo_names::Vec<u8>, zoo_names::String)', ['(zoo_names::Vec(0), zoo_names::String(0))', '(zoo_names::Vec(0), zoo_names::String(1))', '(zoo_names::Vec(1), zoo_names::String(0))']),
    ('user-u8', 'zoo_prim::r#u8', ['zoo_prim::r#u8(false)', 'zoo_prim::r#u8(true)']),
    ('nested-ref', "Option<&'static (u8, &'static str)>", ['None', 'Some(&(0, "a"))', 'Some(&(0, "b"))']),
]
ZOO_NAMES = ("#[allow(non_camel_case_types, dead_code)]\npub mod zoo_names {\n"
             "    #[derive(Debug, Clone, Copy, PartialEq, Eq, PartialOrd, Ord, Hash, Default)] pub struct PhantomData<T>(pub T);\n"
             "    #[derive(Debug, Clone, Copy, PartialEq, Eq, PartialOrd, Ord, Hash, Default)] pub struct Option<T>(pub T);\n"
             "    #[derive(Debug, Clone, Copy, PartialEq, Eq, PartialOrd, Ord, Hash, Default)] pub struct Vec<T>(pub T);\n"
             "    #[derive(Debug, Clone, Copy, PartialEq, Eq, PartialOrd, Ord, Hash, Default)] pub struct String(pub u8);\n"
             "}\n#[allow(non_camel_case_types, dead_code)]\npub mod zoo_prim {\n    #[derive(Debug, Clone, Copy, PartialEq, Eq, PartialOrd, Ord, Hash, Default)] pub struct r#u8(pub bool);\n}\n")
ZOO_PRE = ZOO_NAMES + "#[allow(dead_code)] type ZooF = f64;\n" + "static ZOO_DATA: [u8; 5] = [1, 2, 3, 4, 5];\nstatic ZOO_STR: &str = \"abcde\";\n" + ("macro_rules! zoo_ty { () => { u8 }; }\npub trait ZooTr { type Out; }\nimpl ZooTr for u8 { type Out = u16; }\n"
           "#[derive(Debug, Clone, Copy, PartialEq, Eq, PartialOrd, Ord, Hash)]\npub struct ZooIgn;\n"
           "#[allow(dead_code)] fn zoo_m_eq<T: PartialEq>(a: &T, b: &T) -> bool { a == b }\n"
           "#[allow(dead_code)] fn zoo_m_pcmp<T: PartialOrd>(a: &T, b: &T) -> Option<core::cmp::Ordering> { a.partial_cmp(b) }\n"
           "#[allow(dead_code)] fn zoo_m_cmp<T: Ord>(a: &T, b: &T) -> core::cmp::Ordering { a.cmp(b) }\n"
           "#[allow(dead_code)] fn zoo_m_hash<T: core::hash::Hash, H: core::hash::Hasher>(v: &T, h: &mut H) { v.hash(h) }\n"
           "#[allow(dead_code)] fn zoo_m_clone<T: Clone>(v: &T) -> T { v.clone() }\n"
           "#[allow(dead_code)] fn zoo_m_fmt<T: core::fmt::Debug>(v: &T, f: &mut core::fmt::Formatter<'_>) -> core::fmt::Result { v.fmt(f) }\n"
           "fn zoo_inc(x: u8) -> u8 { x.wrapping_add(1) }\nfn zoo_dec(x: u8) -> u8 { x.wrapping_sub(1) }\nfn zoo_id(x: &u8) -> &u8 { x }\nfn zoo_id2(x: &u8) -> &u8 { let _ = 2; x }\n")


def twin_ctor(c, kind, ign):
    t = c('tw::')
    if not ign:
        return t
    import re as _re
    if kind == 'sn':
        return _re.sub(r', b: [01] \}$', ', b: ZooIgn }', t)
    if kind == 'st':
        return _re.sub(r', [01]\)$', ', ZooIgn)', t)
    return _re.sub(r'^tw::Ty::A\([01], ', 'tw::Ty::A(ZooIgn, ', _re.sub(r', b: [01] \}$', ', b: ZooIgn }', t))


def zoo_cases(prop, educed, std_for_educe_type, twin_derives, body_check, zoo=None, z_attr='', ign_attr=''):
    """One case per (type form, shape).  `educed`: educe trait list text; `std_for_educe_type`: std derives on the educe type; `twin_derives`: std derives on the twin;
    body_check: Rust statements using `vs: Vec<(Ty, tw::Ty)>` and `r`."""
    from ..core import Case
    out = []
    for zid, zty, zvals in (zoo or ZOO):
        for kind in ('sn', 'st', 'en'):
            if kind == 'sn':
                decl = 'pub struct Ty { pub a: u8, pub z: %s, pub b: u8 }' % zty
                mk = lambda a, z, b, p='': '%sTy { a: %s, z: %s, b: %s }' % (p, a, z, b)
                vals = [(a, z, b) for a in ('0', '1') for z in zvals for b in ('0', '1')]
                ctor = [lambda p, t=t: '%sTy { a: %s, z: %s, b: %s }' % (p, t[0], t[1], t[2]) for t in vals]
            elif kind == 'st':
                decl = 'pub struct Ty(pub u8, pub %s, pub u8);' % zty
                vals = [(a, z, b) for a in ('0', '1') for z in zvals for b in ('0', '1')]
                ctor = [lambda p, t=t: '%sTy(%s, %s, %s)' % (p, t[0], t[1], t[2]) for t in vals]
            else:
                decl = 'pub enum Ty { A(u8, %s), B { z: %s, b: u8 }, C }' % (zty, zty)
                ctor = []
                for z in zvals:
                    for a in ('0', '1'):
                        ctor.append(lambda p, a=a, z=z: '%sTy::A(%s, %s)' % (p, a, z))
                        ctor.append(lambda p, a=a, z=z: '%sTy::B { z: %s, b: %s }' % (p, z, a))
                ctor.append(lambda p: '%sTy::C' % p)
            src = ZOO_PRE
            edecl, tdecl = decl, decl
            if z_attr:
                # the exotic field carries an attribute itself (a custom method that forwards to the field type's own implementation): the twin stays the plain std derive
                edecl = edecl.replace('pub z: ', '#[educe(%s)] pub z: ' % z_attr).replace('pub %s, pub u8);' % zty, '#[educe(%s)] pub %s, pub u8);' % (z_attr, zty))
                edecl = edecl.replace('A(u8, %s)' % zty, 'A(u8, #[educe(%s)] %s)' % (z_attr, zty)).replace('B { z: ', 'B { #[educe(%s)] z: ' % z_attr)
                assert edecl.count(z_attr) == (2 if kind == 'en' else 1), edecl
            if ign_attr:
                # a sibling of the exotic field is ignored: in the twin that sibling is a unit struct (always equal, feeds nothing)
                if kind == 'sn':
                    edecl, tdecl = edecl.replace('pub b: u8', '#[educe(%s)] pub b: u8' % ign_attr), tdecl.replace('pub b: u8', 'pub b: ZooIgn')
                elif kind == 'st':
                    edecl, tdecl = edecl.replace(', pub u8);', ', #[educe(%s)] pub u8);' % ign_attr), tdecl.replace(', pub u8);', ', pub ZooIgn);')
                else:
                    edecl = edecl.replace('A(u8, ', 'A(#[educe(%s)] u8, ' % ign_attr).replace(', b: u8 }', ', #[educe(%s)] b: u8 }' % ign_attr)
                    tdecl = tdecl.replace('A(u8, ', 'A(ZooIgn, ').replace(', b: u8 }', ', b: ZooIgn }')
                assert edecl.count(ign_attr) == (2 if kind == 'en' else 1), edecl
            src += '#[derive(Educe%s)]\n#[educe(%s)]\n%s\n' % (', ' + std_for_educe_type if std_for_educe_type else '', educed, edecl)
            src += 'mod tw {\n    use super::*;\n    #[derive(%s)]\n    %s\n}\n' % (twin_derives, tdecl)
            src += 'pub fn check(r: &mut Rep) {\n    let vs: Vec<(Ty, tw::Ty)> = vec![\n%s    ];\n%s}\n' % (
                ''.join('        (%s, %s),\n' % (c(''), twin_ctor(c, kind, bool(ign_attr))) for c in ctor), body_check)
            out.append(Case('%s|zoo|%s|%s' % (prop, zid, kind), src, {'field_type': zty, 'shape': kind, 'oracle': '#[derive(%s)] on a twin' % twin_derives, 'attribute on the field': z_attr, 'attribute on its sibling': ign_attr},
                            expect='accept', run=True, depth=1))
    return out


# floating-point forms (no Eq / Ord / Hash of their own): -0.0 == 0.0 and NaN != NaN must survive whatever is educed next to PartialEq
ZOO_FLOAT = [('f64', 'f64', ['0.0f64', '-0.0f64', 'f64::NAN', '1.5f64']), ('f32', 'f32', ['0.0f32', '-0.0f32', 'f32::NAN']), ('f64-array', '[f64; 2]', ['[0.0, 1.0]', '[-0.0, 1.0]', '[f64::NAN, 1.0]']),
             ('f32-option', 'Option<f32>', ['None', 'Some(0.0)', 'Some(-0.0)', 'Some(f32::NAN)']), ('f64-alias', 'ZooF', ['0.0', '-0.0', 'ZooF::NAN'])]


# ---- dynamically sized structs: the last field is a `?Sized` parameter (values reach it through unsized coercion); oracle: the std derive on a twin
UNSIZED_CHECKS = {
    'C02': ('PartialEq', 'PartialEq',
            '            r.ck((**x == **y) == (**tx == **ty), 0, &|| format!("values #{} and #{}: == gives {}, #[derive(PartialEq)] gives {}", i, j, **x == **y, **tx == **ty));\n'
            '            r.ck((**x != **y) == (**tx != **ty), 1, &|| format!("values #{} and #{}: != disagrees with #[derive(PartialEq)]", i, j));\n'),
    'C03': ('PartialEq, Eq, PartialOrd, Ord', 'PartialEq, Eq, PartialOrd, Ord',
            '            r.ck(x.partial_cmp(y) == tx.partial_cmp(ty), 0, &|| format!("values #{} and #{}: partial_cmp gives {:?}, the std derive gives {:?}", i, j, x.partial_cmp(y), tx.partial_cmp(ty)));\n'
            '            r.ck(x.cmp(y) == tx.cmp(ty), 1, &|| format!("values #{} and #{}: cmp gives {:?}, the std derive gives {:?}", i, j, x.cmp(y), tx.cmp(ty)));\n'
            '            r.ck((**x < **y, **x <= **y, **x > **y, **x >= **y) == (**tx < **ty, **tx <= **ty, **tx > **ty, **tx >= **ty), 2, &|| format!("values #{} and #{}: the operators disagree with the std derive", i, j));\n'),
    'C03p': ('PartialEq, PartialOrd', 'PartialEq, PartialOrd',
             '            r.ck(x.partial_cmp(y) == tx.partial_cmp(ty), 0, &|| format!("values #{} and #{}: partial_cmp gives {:?}, the std derive gives {:?}", i, j, x.partial_cmp(y), tx.partial_cmp(ty)));\n'),
    'C05': ('Hash', 'Hash',
            '            if i == j { r.ck(trace_of(&&**x).unwrap() == trace_of(&&**tx).unwrap(), 0, &|| format!("value #{}: feeds {:?}, #[derive(Hash)] feeds {:?}", i, trace_of(&&**x).unwrap(), trace_of(&&**tx).unwrap())); }\n'),
    'C06': ('Debug', 'Debug',
            '            if i == j { r.ck(format!("{:?}", x) == format!("{:?}", tx), 0, &|| format!("value #{}: {{:?}} gives {:?}, #[derive(Debug)] gives {:?}", i, format!("{:?}", x), format!("{:?}", tx)));\n'
            '                        r.ck(format!("{:#?}", x) == format!("{:#?}", tx), 1, &|| format!("value #{}: {{:#?}} gives {:?}, #[derive(Debug)] gives {:?}", i, format!("{:#?}", x), format!("{:#?}", tx))); }\n'),
}


def unsized_cases(prop, which=None):
    from ..core import Case
    educed, twin, body = UNSIZED_CHECKS[which or prop]
    out = []
    tails = [('0', '[1u8, 2]'), ('0', '[1u8, 2, 3]'), ('1', '[1u8]'), ('0', '[1u8, 3]'), ('1', '[0u8; 0]'), ('1', '[1u8, 2]')]
    for kind, decl, mk in (('gn', 'pub struct Ty<T: ?Sized> { pub a: u8, pub tail: T }', '{P}Ty {{ a: {a}, tail: {t} }}'),
                           ('gt', 'pub struct Ty<T: ?Sized>(pub u8, pub T);', '{P}Ty({a}, {t})'),
                           ('gw', 'pub struct Ty<T> where T: ?Sized { pub a: u8, pub b: u16, pub tail: T }', '{P}Ty {{ a: {a}, b: 7, tail: {t} }}')):
        src = '#[derive(Educe)]\n#[educe(%s)]\n%s\n' % (educed, decl)
        src += 'mod tw {\n    #[derive(%s)]\n    %s\n}\n' % (twin, decl)
        src += 'pub fn check(r: &mut Rep) {\n    let vs: Vec<(Box<Ty<[u8]>>, Box<tw::Ty<[u8]>>)> = vec![\n%s    ];\n' % ''.join(
            '        (Box::new(%s), Box::new(%s)),\n' % (mk.format(P='', a=a, t=t), mk.format(P='tw::', a=a, t=t)) for a, t in tails)
        src += '    for (i, (x, tx)) in vs.iter().enumerate() {\n        for (j, (y, ty)) in vs.iter().enumerate() {\n            let _ = (j, y, ty);\n%s        }\n    }\n}\n' % body
        out.append(Case('%s|unsized|%s%s' % (prop, kind, '|' + which if which and which != prop else ''), src, {'shape': decl, 'educed': educed, 'oracle': '#[derive(%s)] on a twin, values behind Box<Ty<[u8]>>' % twin},
                        expect='accept', run=True, depth=1))
    return out


# ---- a hostile environment for the derive: modules called `core` and `std` in scope whose traits are decoys (blanket-implemented, wrong answers).
# Generated code that reaches a std item through a relative path (`core::hash::Hash::hash(..)`) instead of `::core::..` gets the decoy.
DECOYS = '''#[allow(dead_code, unused)]
mod core { pub use super::decoys::*; }
#[allow(dead_code, unused)]
mod std { pub use super::decoys::*; }
#[allow(dead_code, unused)]
mod alloc { pub use super::decoys::*; }
#[allow(dead_code, unused, clippy::all)]
mod decoys {
    pub mod hash {
        pub use ::core::hash::Hasher;
        pub trait Hash { fn hash<H: Hasher>(&self, s: &mut H); }
        impl<T: ?Sized> Hash for T { fn hash<H: Hasher>(&self, s: &mut H) { s.write_u8(0xAA) } }
    }
    pub mod cmp {
        pub use ::core::cmp::Ordering;
        pub trait PartialEq<R: ?Sized = Self> { fn eq(&self, o: &R) -> bool; fn ne(&self, o: &R) -> bool; }
        impl<T: ?Sized> PartialEq for T { fn eq(&self, _: &T) -> bool { true } fn ne(&self, _: &T) -> bool { true } }
        pub trait Eq {}
        pub trait PartialOrd<R: ?Sized = Self> { fn partial_cmp(&self, o: &R) -> ::core::option::Option<Ordering>; }
        impl<T: ?Sized> PartialOrd for T { fn partial_cmp(&self, _: &T) -> ::core::option::Option<Ordering> { ::core::option::Option::None } }
        pub trait Ord { fn cmp(&self, o: &Self) -> Ordering; }
        impl<T: ?Sized> Ord for T { fn cmp(&self, _: &Self) -> Ordering { Ordering::Less } }
    }
    pub mod clone {
        pub trait Clone: Sized { fn clone(&self) -> Self; fn clone_from(&mut self, s: &Self); }
        impl<T> Clone for T { fn clone(&self) -> Self { panic!("decoy Clone::clone") } fn clone_from(&mut self, _: &Self) { panic!("decoy Clone::clone_from") } }
    }
    pub mod fmt {
        pub use ::core::fmt::{Error, Formatter, Result};
        pub trait Debug { fn fmt(&self, f: &mut Formatter<'_>) -> Result; }
        impl<T: ?Sized> Debug for T { fn fmt(&self, f: &mut Formatter<'_>) -> Result { f.write_str("decoy") } }
    }
    pub mod default {
        pub trait Default: Sized { fn default() -> Self; }
        impl<T> Default for T { fn default() -> Self { panic!("decoy Default::default") } }
    }
    pub mod convert {
        pub trait Into<T>: Sized { fn into(self) -> T; }
        impl<S, T> Into<T> for S { fn into(self) -> T { panic!("decoy Into::into") } }
    }
    pub mod ops {
        pub trait Deref { type Target: ?Sized; fn deref(&self) -> &Self::Target; }
        pub trait DerefMut: Deref { fn deref_mut(&mut self) -> &mut Self::Target; }
    }
    pub mod marker { pub trait Copy {} pub trait Sized {} }
    pub mod option { pub enum Option<T> { None, Some(T) } }
    pub mod mem { pub fn size_of<T>() -> usize { 0 } }
    pub mod slice { pub unsafe fn from_raw_parts<'a, T>(_: *const T, _: usize) -> &'a [T] { &[] } }
    pub mod ptr { pub fn eq<T: ?Sized>(_: *const T, _: *const T) -> bool { true } }
    // traits that give every type by-value methods named like the std methods a template might call with method syntax: method resolution
    // tries by-value receivers first, so `a.cmp(&b)`, `x.clone()`, `v.into()`, `s.hash(h)`, `t.eq(&u)` written in generated code would land here
    // (the methods of the core::fmt builders are left out: the Debug templates do call them with method syntax - known finding of C19)
    pub mod ambient {
        use ::core::cmp::Ordering;
        pub trait AmbCmp: Sized { fn cmp(self, _: &Self) -> Ordering { Ordering::Greater } fn partial_cmp(self, _: &Self) -> ::core::option::Option<Ordering> { ::core::option::Option::None }
            fn eq(self, _: &Self) -> bool { true } fn ne(self, _: &Self) -> bool { true } fn lt(self, _: &Self) -> bool { true } fn then(self, _: Ordering) -> Ordering { Ordering::Greater } }
        impl<T> AmbCmp for T {}
        pub trait AmbClone: Sized { fn clone(self) -> Self { panic!("ambient clone") } fn clone_from(self, _: &Self) { panic!("ambient clone_from") } fn into<U>(self) -> U { panic!("ambient into") }
            fn hash<H>(self, _: &mut H) { panic!("ambient hash") } fn fmt(self, _: &mut ::core::fmt::Formatter<'_>) -> ::core::fmt::Result { panic!("ambient fmt") }
            fn deref(self) -> Self { panic!("ambient deref") } fn unwrap(self) -> Self { panic!("ambient unwrap") } }
        impl<T> AmbClone for T {}
    }
}
'''


# macros of the derive site that shadow std macros (textual scope): generated code that calls one of them without a path gets the decoy.
# (`stringify!` and `unreachable!` are the two macros the templates use themselves - by full path since 6f90c36)
DECOY_MACROS = ''.join('    #[allow(unused_macros)] macro_rules! %s { ($($t:tt)*) => { compile_error!("generated code used the macro %s! of the derive site") }; }\n' % (m, m)
                       for m in ('stringify', 'unreachable', 'matches', 'write', 'writeln', 'format', 'format_args', 'panic', 'assert', 'assert_eq', 'assert_ne', 'debug_assert', 'debug_assert_eq', 'vec', 'todo',
                                 'unimplemented', 'concat', 'line', 'column', 'file', 'module_path', 'cfg', 'env', 'option_env', 'print', 'println', 'eprintln', 'dbg'))


def scope_item(body):
    """move the first `#[derive(Educe..)]` item of a case into a nested module that also has the ambient traits in scope (the case's own code stays
    outside, so its method calls are not affected); the body is returned unchanged if the item cannot be delimited or has private parts"""
    import re
    i = body.find('#[derive(Educe')
    if i < 0:
        return body
    m = re.compile(r'\bpub (struct|enum|union) Ty\b').search(body, i)
    if not m:
        return body
    j = m.end()
    depth, end = 0, None
    while j < len(body):
        c = body[j]
        if c in '([{':
            depth += 1
        elif c in ')]}':
            depth -= 1
            if depth == 0 and c == '}':
                end = j + 1
                break
        elif c == ';' and depth == 0:
            end = j + 1
            break
        j += 1
    if end is None:
        return body
    item = body[i:end]
    if m.group(1) != 'enum' and re.search(r'(?m)^\s*(?:#\[[^\n]*\]\s*)*(?!pub\b)[a-z_][A-Za-z0-9_#]*\s*:', item):
        return body       # a private field: the harness outside the module could not reach it
    return body[:i] + '#[allow(unused)]\nmod scoped {\n    #[allow(unused_imports)] use super::*;\n    #[allow(unused_imports)] use super::decoys::ambient::*;\n' + DECOY_MACROS + item + '\n}\n#[allow(unused_imports)] pub use self::scoped::Ty;\n' + body[end:]


def with_decoys(case):
    """the same case with decoy `core` / `std` / `alloc` modules in scope of the derive; None if the case's own code uses relative std paths"""
    import re
    from ..core import Case
    # the case's own relative std paths are made absolute first
    body = re.sub(r'(?<![:A-Za-z0-9_])(std|core|alloc)::', r'::\1::', case.body)
    body = scope_item(body)
    spec = dict(case.spec)
    spec['environment'] = 'decoy core / std / alloc modules in scope'
    return Case(case.key + '|decoys', DECOYS + body, spec, case.expect, case.run, case.depth + 1, case.tags)


def decoy_layer(cases, n=60):
    """about n cases spread over the list, each repeated inside the decoy environment"""
    out = []
    step = max(1, len(cases) // n)
    for c in cases[::step]:
        d = with_decoys(c)
        if d is not None:
            out.append(d)
    return out


LOCALS = {'f0': 'arg', 'f1': 'f', 'f2': 'builder', 'f3': 'state', 'f4': 'other'}


def localsify(case, scheme=0):
    """the same case with its named fields called like the locals the templates introduce (arg, f, builder, state, other, source, ...), and - scheme 1 - the first
    field called like the custom method the case uses (a binding of that name would capture the method's path)"""
    import re
    from ..core import Case
    if not re.search(r'\bf[0-4]\b', case.body):
        return None
    names = dict(LOCALS)
    if scheme == 2:
        # names that differ by the tail of a binding prefix: if one handler binds `self.x` as `_x` and `other.x` as `_o_x`, then `x` and `o_x` meet
        names = {'f0': 'x', 'f1': 'o_x', 'f2': 's_x', 'f3': 'd_x', 'f4': 'v_x'}
    if scheme == 1:
        names = {'f0': 'source', 'f1': 'educe__f', 'f2': 'other', 'f3': 'arg', 'f4': 'f'}
        m = re.search(r'method\((?:crate::sup::)?([a-z_0-9]+)\)|method = "([a-z_0-9]+)"', case.body)
        if m:
            names['f0'] = m.group(1) or m.group(2)
    body = re.sub(r'(?<![A-Za-z0-9_#.])f([0-4])\b(?!\()', lambda m_: names['f' + m_.group(1)], case.body)
    spec = dict(case.spec)
    spec['field_names'] = sorted(names.values())
    return Case(case.key + '|locals%d' % scheme, body, spec, case.expect, case.run, case.depth + 1, case.tags)
