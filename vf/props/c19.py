"""C19 — generated code is insulated from the names at the derive site (XP harvest; RT compile + run)."""
import itertools
import re

from .. import catalog as K
from .. import xp
from ..core import Case, guard, rt_run, log, PRELUDE

KEYWORDS = set('as break const continue crate else enum extern false fn for if impl in let loop match mod move mut pub ref return self Self static struct super trait true '
               'type unsafe use where while async await dyn abstract become box do final macro override priv typeof unsized virtual yield try union _'.split())
# identifiers the harvest corpus itself supplies (the user's side of the harvest inputs)
CORPUS_OWN = set('Ty V0 V1 V2 f0 f1 f2 T U N W Zz kk a fmt_m clone_m eq_m cmp_m hash_m conv_m m u8 u16 u32 u64 usize bool str Vec'.split())
SETS = ['Debug', 'Clone', 'CopyClone', 'PartialEq', 'PartialOrd', 'Ord', 'Hash', 'Default', 'Deref', 'Into']
ENV_SETS = SETS + ['CopyCloneM', 'EqM', 'OrdM', 'POrdM', 'HashM', 'DebugFlipM', 'DebugOff', 'DefaultT']
NEUTRAL = {'ty': 'Ty', 'lt': 'l', 'tp': 'P', 'cp': 'CP', 'f0': 'g0', 'f1': 'g1', 'f2': 'g2', 'v0': 'W0', 'v1': 'W1'}


RENAME = {'Ty': 'Tyq9', 'V0': 'Vq0', 'V1': 'Vq1', 'V2': 'Vq2', 'f0': 'fq0', 'f1': 'fq1', 'f2': 'fq2', 'T': 'Tq9', 'U': 'Uq9', 'N': 'Nq9', 'W': 'Wq9', 'Zz': 'Zq9', 'kk': 'kq9',
          'fmt_m': 'fmtq9', 'clone_m': 'cloneq9', 'eq_m': 'eqq9', 'cmp_m': 'cmpq9', 'hash_m': 'hashq9', 'conv_m': 'convq9', 'm': 'mq9'}


def harvest(binary):
    """identifiers (and lifetimes) that occur in expansions but were not supplied by the input: the corpus is rendered with unusual
    user-side identifiers, so that an ordinary name such as `a`, `T`, `N` or `H` that shows up in an expansion is known to come from a template"""
    ins = []
    for sh in K.xshapes('full'):
        for g in K.GROUPS:
            for partner in ([False, True] if g in K.PARTNER else [False]):
                for c in K.group_configs(g, sh, 'small', partner):
                    ins.append(K.render(sh, c))
    ins.append('#[derive(Educe)] #[educe(Clone, Debug = E)] enum Ty {}')
    pat = re.compile(r"(?<![A-Za-z0-9_'])(%s)(?![A-Za-z0-9_])" % '|'.join(sorted(RENAME, key=len, reverse=True)))
    ins = [pat.sub(lambda m: RENAME[m.group(1)], t).replace("'a", "'ltq9") for t in ins]
    res = xp.expand_all(binary, ins, idents=True)
    ids = set()
    for r in res:
        ids.update(r.get('idents', []))
    own = set(RENAME.values()) | {'ltq9', 'E', 'u8', 'u16', 'u32', 'u64', 'usize', 'bool', 'str', 'Vec'}
    ids = {i for i in ids if i not in KEYWORDS and i not in own and re.match(r'^[A-Za-z_][A-Za-z0-9_]*$', i)}
    prefixes = set()
    for i in ids:
        for fld in ('fq0', 'fq1', 'fq2'):
            if i.endswith(fld) and i != fld:
                prefixes.add(i[:-len(fld)])
    plain = sorted(i for i in ids if not any(i.endswith(f) for f in ('fq0', 'fq1', 'fq2')))
    return plain, sorted(prefixes)


def attrs(s, kind):
    """(type-level metas, per-field metas f0/f1/f2, variant metas) of a trait set"""
    if kind == 'un':
        return {'Debug': (['Debug(unsafe)'], {}, {}), 'PartialEq': (['PartialEq(unsafe)', 'Eq'], {}, {}), 'Hash': (['Hash(unsafe)'], {}, {}), 'CopyClone': (['Copy', 'Clone'], {}, {}),
                'Default': (['Default(new)'], {1: 'Default = 7'}, {})}[s]
    if s == 'Debug':
        return ['Debug'], {1: 'Debug(method(fmt_m))'}, {}
    if s == 'Clone':
        return ['Clone'], {1: 'Clone(method(::core::clone::Clone::clone))'}, {}
    if s == 'CopyClone':
        return ['Copy', 'Clone'], {}, {}
    if s == 'PartialEq':
        return ['PartialEq', 'Eq'], {2: 'Eq(ignore)'}, {}
    if s == 'PartialOrd':
        return ['PartialEq', 'PartialOrd'], {1: 'PartialOrd(rank = 0)'}, {}
    if s == 'Ord':
        return ['PartialEq', 'Eq', 'PartialOrd', 'Ord'], {2: 'Ord(ignore)'}, {}
    if s == 'Hash':
        return ['Hash'], {2: 'Hash(ignore)'}, {}
    if s == 'Default':
        return ['Default(new)'], {1: 'Default = 7'}, {1: 'Default'}
    if s == 'DefaultT':
        # the default variant is the tuple variant (its fields carry the attributes; the template arm for nameless fields)
        return ['Default(new)'], {1: 'Default = 7'}, {0 if kind == 'en' else 1: 'Default'}
    if s == 'Deref':
        return ['Deref', 'DerefMut'], {1: 'Deref, DerefMut'}, {}
    if s == 'Into':
        return ['Into(u8)', 'Into(u64)'], {1: 'Into(u8), Into(u64)'}, {}
    # attribute-dependent template paths (bindings that only exist under a parameter)
    if s in ('DebugFlip', 'DebugFlipM'):
        fm = {2: 'Debug(method(fmt_m))'} if s == 'DebugFlipM' else {}
        if kind == 'en':
            return ['Debug'], fm, {0: 'Debug(named_field = true)', 1: 'Debug(named_field = false)'}
        return ['Debug(named_field = %s)' % ('false' if kind == 'sn' else 'true')], fm, {}
    if s == 'DebugOff':
        if kind == 'en':
            return ['Debug(name = true)'], {}, {0: 'Debug(name = false, named_field = true)', 1: 'Debug(name = false)'}
        return ['Debug(name = false)'], {}, {}
    if s == 'EqM':
        return ['PartialEq', 'Eq'], {2: 'PartialEq(method(eq_any))'}, {}
    if s == 'OrdM':
        # (with both order traits educed the field takes one attribute, which both impls follow)
        return ['PartialEq', 'Eq', 'PartialOrd', 'Ord'], {2: 'Ord(method(cmp_any))'}, {}
    if s == 'POrdM':
        return ['PartialEq', 'PartialOrd'], {2: 'PartialOrd(method(pcmp_same))'}, {}
    if s == 'HashM':
        return ['Hash'], {2: 'Hash(method(hash_any))'}, {}
    if s == 'CopyCloneM':
        return ['Copy', 'Clone'], ({1: 'Clone(method(::core::clone::Clone::clone))'} if kind == 'en' else {}), {}
    if s == 'CloneM2':
        return ['Clone'], {0: 'Clone(method(::core::clone::Clone::clone))', 2: 'Clone(method(::core::clone::Clone::clone))'}, {}
    raise ValueError(s)


XSETS = ['DebugFlip', 'DebugFlipM', 'DebugOff', 'EqM', 'OrdM', 'POrdM', 'HashM', 'CloneM2']
BASE = {'DefaultT': 'Default', 'CopyCloneM': 'CopyClone', 'DebugFlip': 'Debug', 'DebugFlipM': 'Debug', 'DebugOff': 'Debug', 'EqM': 'PartialEq', 'OrdM': 'Ord', 'POrdM': 'PartialOrd', 'HashM': 'Hash', 'CloneM2': 'Clone'}

# trait sets with a method field: (set, the path the catalogue writes, the support function the hostile name is an alias of; None: a generic function defined under that name)
METHOD_SETS = [('Debug', 'fmt_m', 'fmt_m'), ('DebugFlipM', 'fmt_m', 'fmt_m'), ('EqM', 'eq_any', 'eq_any'), ('OrdM', 'cmp_any', 'cmp_any'), ('POrdM', 'pcmp_same', 'pcmp_same'),
               ('HashM', 'hash_any', 'hash_any'), ('Clone', '::core::clone::Clone::clone', None)]


def program(s, kind, nm, with_check=True, derive=True):
    """kind: sn (named struct) | st (tuple struct) | en (enum: tuple variant + named variant).  nm: names."""
    tl, fm, vm = attrs(s, kind)
    deft = s == 'DefaultT' and kind == 'en'
    s = BASE.get(s, s)
    ty, lt, tp, cp = nm['ty'], nm['lt'], nm['tp'], nm['cp']
    gdecl = "<'%s, %s, const %s: usize>" % (lt, tp, cp)
    gargs = "<'%s, %s, %s>" % (lt, tp, cp)
    inst = "%s<'static, u16, 2>" % ty
    f0t, f1t, f2t = tp, 'u8', "&'%s [u8; %s]" % (lt, cp)
    if s == 'Default':
        f2t = "&'%s str" % lt
    fts = [f0t, f1t, f2t]
    vals_a = ['5u16', '1u8', ('"s"' if s == 'Default' else '&[1u8, 2u8]')]
    vals_b = ['5u16', '2u8', ('"t"' if s == 'Default' else '&[9u8, 9u8]')]

    def fa(k):
        return ('#[educe(%s)] ' % fm[k]) if (derive and k in fm) else ''
    head = ('#[derive(Educe)]\n' + ''.join('#[educe(%s)]\n' % m for m in tl)) if derive else ''
    where = ' where %s: ::core::marker::Copy' % tp if s == 'CopyClone' else ''
    if fm.get(0, '').startswith('Clone(method'):
        where = ' where %s: ::core::clone::Clone' % tp
    fn = [nm['f0'], nm['f1'], nm['f2']]
    if kind == 'un':
        # a union over the same three field types (the reference is the widest field: values are built through it, so every byte is initialised)
        where = ' where %s: ::core::marker::Copy' % tp
        src = head + 'pub union %s%s%s {\n%s}\n' % (ty, gdecl, where, ''.join('    %spub %s: %s,\n' % (fa(k), fn[k], fts[k]) for k in range(3)))
        if not derive:
            src += 'pub trait VerifMarker {}\nimpl%s VerifMarker for %s%s%s {}\n' % (gdecl, ty, gargs, where)
            return src
        if not with_check:
            return src
        body = '    let a: %s = %s { %s: %s };\n    let b: %s = %s { %s: %s };\n' % (inst, ty, fn[2], vals_a[2], inst, ty, fn[2], vals_b[2])
        if s == 'Debug':
            body += '    let t = format!("{:?}", a);\n    r.ck(!t.is_empty(), 0, &|| "empty Debug output".to_string());\n    let _ = &b;\n'
        elif s == 'PartialEq':
            body += '    r.ck(a == a && a != b, 0, &|| "== does not compare the bytes".to_string());\n'
        elif s == 'Hash':
            body += '    r.ck(trace_of(&a).unwrap() == trace_of(&a).unwrap() && trace_of(&a).unwrap() != trace_of(&b).unwrap(), 0, &|| "hash does not depend on the bytes".to_string());\n'
        elif s == 'CopyClone':
            body += '    let c = a.clone();\n    r.ck(unsafe { c.%s == a.%s && c.%s != b.%s }, 0, &|| "clone does not reproduce the union".to_string());\n' % (fn[2], fn[2], fn[2], fn[2])
        elif s == 'Default':
            body += '    let d: %s = Default::default();\n    let n: %s = <%s>::new();\n    r.ck(unsafe { d.%s == 7 && n.%s == 7 }, 0, &|| "default() does not use the field expression".to_string());\n    let _ = (&a, &b);\n' % (inst, inst, inst, fn[1], fn[1])
        return src + 'pub fn check(r: &mut Rep) {\n%s}\n' % body
    if kind == 'sn':
        src = head + 'pub struct %s%s%s {\n%s}\n' % (ty, gdecl, where, ''.join('    %spub %s: %s,\n' % (fa(k), fn[k], fts[k]) for k in range(3)))
        mk = lambda vals: '%s { %s }' % (ty, ', '.join('%s: %s' % (fn[k], vals[k]) for k in range(3)))
        get1 = lambda x: '%s.%s' % (x, fn[1])
    elif kind == 'st':
        src = head + 'pub struct %s%s(\n%s)%s;\n' % (ty, gdecl, ''.join('    %spub %s,\n' % (fa(k), fts[k]) for k in range(3)), where)
        mk = lambda vals: '%s(%s)' % (ty, ', '.join(vals))
        get1 = lambda x: '%s.1' % x
    else:
        va = ('    #[educe(%s)]\n' % vm[1]) if (derive and 1 in vm) else ''
        va0 = ('#[educe(%s)]\n    ' % vm[0]) if (derive and 0 in vm) else ''
        fa0 = (lambda k: '') if (s == 'Default' and not deft) else fa
        fan = (lambda k: '') if deft else fa
        unit = '' if s in ('Deref', 'Into') else '    Zunit,\n'
        src = head + 'pub enum %s%s%s {\n    %s%s(%s%s, %s%s, %s%s),\n%s    %s { %s },\n%s}\n' % (
            ty, gdecl, where, va0, nm['v0'], fa0(0), fts[0], fa0(1), fts[1], fa0(2), fts[2], va, nm['v1'],
            ', '.join('%s%s: %s' % (fan(k), fn[k], fts[k]) for k in range(3)), unit)
        mk = lambda vals: '%s::%s { %s }' % (ty, nm['v1'], ', '.join('%s: %s' % (fn[k], vals[k]) for k in range(3)))
        get1 = lambda x: 'match &%s { %s::%s { %s: q, .. } => *q, _ => 0 }' % (x, ty, nm['v1'], fn[1])
        if deft:
            get1 = lambda x: 'match &%s { %s::%s(_, q, _) => *q, _ => 0 }' % (x, ty, nm['v0'])
    if not derive:
        src += 'pub trait VerifMarker {}\nimpl%s VerifMarker for %s%s%s {}\n' % (gdecl, ty, gargs, where)
        return src
    if not with_check:
        return src
    a, b = mk(vals_a), mk(vals_b)
    body = '    let a: %s = %s;\n    let b: %s = %s;\n' % (inst, a, inst, b)
    if s == 'Debug':
        body += '    let t = format!("{:?}", a);\n    r.ck(t.contains("1") && !t.is_empty(), 0, &|| format!("unexpected Debug output {:?}", t));\n'
        body += '    let _ = &b;\n'
    elif s in ('Clone', 'CopyClone'):
        body += '    let c = a.clone();\n    r.ck(%s == 1 && %s == 2, 0, &|| "clone does not reproduce the fields".to_string());\n' % (get1('c'), get1('b'))
    elif s == 'PartialEq':
        body += '    r.ck(a == a && a != b, 0, &|| "== does not compare the fields".to_string());\n'
    elif s == 'PartialOrd':
        body += '    r.ck(a < b && !(b < a) && a <= a, 0, &|| "partial_cmp does not order by the fields".to_string());\n'
    elif s == 'Ord':
        body += '    r.ck(a.cmp(&b) == std::cmp::Ordering::Less && a < b && a.cmp(&a) == std::cmp::Ordering::Equal, 0, &|| "cmp does not order by the fields".to_string());\n'
    elif s == 'Hash':
        body += '    r.ck(trace_of(&a).unwrap() == trace_of(&a).unwrap() && trace_of(&a).unwrap() != trace_of(&b).unwrap(), 0, &|| "hash does not depend on the fields".to_string());\n'
    elif s == 'Default':
        body += '    let d: %s = Default::default();\n    let n: %s = <%s>::new();\n    r.ck(%s == 7 && %s == 7, 0, &|| "default() does not use the field expression".to_string());\n    let _ = (&a, &b);\n' % (
            inst, inst, inst, get1('d'), get1('n'))
    elif s == 'Deref':
        body += '    let mut c = a;\n    r.ck(*c == 1, 0, &|| "deref does not expose the marked field".to_string());\n    *c = 9;\n    r.ck(%s == 9, 1, &|| "deref_mut does not expose the marked field".to_string());\n    let _ = &b;\n' % get1('c')
    elif s == 'Into':
        body += '    let x: u8 = a.into();\n    let y: u64 = b.into();\n    r.ck(x == 1 && y == 2, 0, &|| "into does not return the marked field".to_string());\n'
    src += 'pub fn check(r: &mut Rep) {\n%s}\n' % body
    return src


ROLES = {'field': ['sn', 'en', 'un'], 'variant': ['en'], 'typaram': ['sn', 'st', 'en', 'un'], 'constparam': ['sn', 'st', 'en', 'un'], 'lifetime': ['sn', 'en', 'un'], 'typename': ['sn', 'st', 'en', 'un']}
UNION_SETS = ('Debug', 'PartialEq', 'Hash', 'CopyClone', 'Default')


def hostile_names(role, ident):
    nm = dict(NEUTRAL)
    if role == 'field':
        nm['f1'] = ident
    elif role == 'variant':
        nm['v1'] = ident
    elif role == 'typaram':
        nm['tp'] = ident
    elif role == 'constparam':
        nm['cp'] = ident
    elif role == 'lifetime':
        nm['lt'] = ident
    elif role == 'typename':
        nm['ty'] = ident
    return nm


ENV_NAMES = ['Option', 'Some', 'None', 'Result', 'Ok', 'Err', 'Ordering', 'Clone', 'Copy', 'Default', 'Debug', 'PartialEq', 'Eq', 'PartialOrd', 'Ord', 'Hash', 'Hasher', 'Into',
             'Deref', 'DerefMut', 'Formatter', 'PhantomData', 'Less', 'Equal', 'Greater', 'Vec', 'String', 'Box', 'Sized', 'Send', 'From', 'Fn', 'Drop', 'Iterator']
ENV_MODS = ['core', 'std', 'fmt', 'cmp', 'hash', 'clone', 'marker', 'option', 'default', 'ops', 'convert', 'mem', 'slice']


# traits in scope at the derive site that offer, for every type, a method named like a std method the templates might call with method syntax
ENV_METHODS = {
    'm:into': 'pub trait AmbInto<T> { fn into(self) -> T; }\n    impl<S, T> AmbInto<T> for S { fn into(self) -> T { unreachable!() } }',
    'm:clone': 'pub trait AmbClone { fn clone(&self) -> u8 { 0 } fn clone_from(&mut self, _: &Self) {} }\n    impl<S: ?Sized> AmbClone for S {}',
    'm:eq': 'pub trait AmbEq { fn eq(&self, _: &Self) -> u8 { 0 } fn ne(&self, _: &Self) -> u8 { 0 } }\n    impl<S: ?Sized> AmbEq for S {}',
    'm:cmp': 'pub trait AmbOrd { fn cmp(&self, _: &Self) -> u8 { 0 } fn partial_cmp(&self, _: &Self) -> u8 { 0 } fn lt(&self, _: &Self) -> u8 { 0 } fn then(self, _: u8) -> u8 where Self: Sized { 0 } '
             'fn is_eq(&self) -> u8 { 0 } fn is_ne(&self) -> u8 { 0 } }\n    impl<S: ?Sized> AmbOrd for S {}',
    'm:hash': 'pub trait AmbHash { fn hash(&self, _: u8) -> u8 { 0 } fn write(&mut self, _: u8) {} fn write_u8(&mut self) {} fn write_usize(&mut self) {} fn write_isize(&mut self) {} }\n    impl<S: ?Sized> AmbHash for S {}',
    'm:fmt': 'pub trait AmbFmt { fn fmt(&self) -> u8 { 0 } fn write_str(&mut self) {} fn field(&mut self) {} fn entry(&mut self) {} fn debug_struct(&mut self) {} fn debug_tuple(&mut self) {} fn debug_map(&mut self) {} }\n    impl<S: ?Sized> AmbFmt for S {}',
    # the same for the methods of the core::fmt builders, with receivers that method resolution tries before the builders' own `&mut self`
    'm:builder': 'pub trait AmbBuilder { fn finish(&self) -> u8 { 0 } fn field(&self) -> u8 { 0 } fn entry(&self) -> u8 { 0 } }\n    impl<S: ?Sized> AmbBuilder for S {}',
    'm:deref': 'pub trait AmbDeref { fn deref(&self) -> u8 { 0 } fn deref_mut(&mut self) -> u8 { 0 } fn as_ref(&self) -> u8 { 0 } fn as_mut(&mut self) -> u8 { 0 } fn borrow(&self) -> u8 { 0 } }\n    impl<S: ?Sized> AmbDeref for S {}',
    'm:default': 'pub trait AmbDefault { fn default() -> u8 { 0 } fn new() -> u8 { 0 } fn from(_: u8) -> u8 { 0 } }\n    impl<S: ?Sized> AmbDefault for S {}',
    'm:option': 'pub trait AmbOption { fn unwrap(self) -> u8 where Self: Sized { 0 } fn map(self) -> u8 where Self: Sized { 0 } fn is_some(&self) -> u8 { 0 } fn is_none(&self) -> u8 { 0 } fn unwrap_or(self) -> u8 where Self: Sized { 0 } }\n    impl<S: ?Sized> AmbOption for S {}',
}


def env_program(s, kind, shadow, nm=None, deny=False):
    """the derive sits in a module whose scope shadows `shadow` (list of names) in the type and value namespaces;
    deny: the module denies the naming lints and the user's item allows them for itself (its own names are its own business, the derive's bindings are not)"""
    nm = nm or NEUTRAL
    inner = program(s, kind, nm, with_check=False)
    if deny:
        inner = '#[allow(non_snake_case, non_camel_case_types, non_upper_case_globals)]\n' + inner
    sh = ''
    for n in shadow:
        if n == 'x:macros':
            from .common import DECOY_MACROS
            sh += DECOY_MACROS

        elif n in ENV_METHODS:
            sh += '    %s\n' % ENV_METHODS[n]
        elif n in ENV_MODS:
            sh += '    pub mod %s {}\n' % n
        else:
            sh += '    #[derive(Clone, Copy)] pub struct %s;\n' % n if n not in ('Clone', 'Copy') else '    pub struct %s;\n' % n
    helper = ('    pub fn fmt_m<X: ::core::fmt::Debug>(v: &X, f: &mut ::core::fmt::Formatter<\'_>) -> ::core::fmt::Result { ::core::fmt::Debug::fmt(v, f) }\n'
              '    pub fn eq_any<X>(_: &X, _: &X) -> bool { true }\n    pub fn cmp_any<X>(_: &X, _: &X) -> ::core::cmp::Ordering { ::core::cmp::Ordering::Equal }\n'
              '    pub fn pcmp_same<X>(_: &X, _: &X) -> ::core::option::Option<::core::cmp::Ordering> { ::core::option::Option::Some(::core::cmp::Ordering::Equal) }\n'
              '    pub fn hash_any<X, Y: ::core::hash::Hasher>(_: &X, _: &mut Y) {}\n')
    src = '%spub mod env {\n%s    use educe::Educe;\n%s%s}\n' % ('#[deny(non_snake_case, non_camel_case_types, non_upper_case_globals)]\n' if deny else '', sh, helper, '\n'.join('    ' + l for l in inner.splitlines()))
    outer = program(s, kind, nm, with_check=True)
    chk = outer[outer.index('pub fn check'):].replace(nm['ty'], 'env::' + nm['ty'])
    return src + chk


def nostd_program(kind_sets):
    out = '#![no_std]\n#![allow(dead_code)]\nuse educe::Educe;\npub fn fmt_m<X: ::core::fmt::Debug>(v: &X, f: &mut ::core::fmt::Formatter<\'_>) -> ::core::fmt::Result { ::core::fmt::Debug::fmt(v, f) }\n'
    return out


def check(v, tier):
    binary = xp.build_xp()
    plain, prefixes = harvest(binary)
    guard(len(plain) > 60 and len(prefixes) >= 4, 'identifier harvest too small: %d identifiers, prefixes %s' % (len(plain), prefixes))
    v.notes['harvested_identifiers'] = plain
    v.notes['binding_prefixes'] = prefixes
    jobs = []   # (key, program, twin)
    raws = ['r#type', 'r#match', 'r#fn', 'r#struct', 'r#loop', 'r#dyn', 'r#async', 'r#try']
    for role, kinds in ROLES.items():
        # (field names that are not snake case: the bindings derived from them must not make the generated code warn)
        for ident in plain + ([] if role == 'lifetime' else raws) + (['userName', 'sessionID', 'X', 'Ünï'] if role == 'field' else []):
            if role == 'lifetime' and ident in ('static',):
                continue
            name = ident
            for kind in kinds:
                for s in SETS:
                    if tier == 'quick' and role in ('lifetime', 'typename', 'variant') and s in ('CopyClone', 'PartialOrd') :
                        continue
                    if kind == 'un' and s not in UNION_SETS:
                        continue
                    nm = hostile_names(role, name)
                    jobs.append(('C19|%s|%s|%s|%s' % (role, ident, kind, s), program(s, kind, nm), program(s, kind, nm, derive=False), role, ident))
                if (role == 'field' or (tier != 'quick' and role in ('typaram', 'constparam', 'variant'))) and kind != 'un':
                    for s in XSETS:
                        nm = hostile_names(role, name)
                        jobs.append(('C19|%s|%s|%s|%s' % (role, ident, kind, s), program(s, kind, nm), program(s, kind, nm, derive=False), role, ident))
    # two sibling fields whose names differ by a prefix the templates use for their bindings; tuple-binding names as field names
    pdiff = sorted({p2[len(p1):] for p1 in prefixes for p2 in prefixes if p2 != p1 and p2.startswith(p1) and p2[len(p1):].strip('_')})
    v.notes['binding_prefix_differences'] = pdiff
    pairs = [(p + 'q', 'q') for p in prefixes] + [('q', p + 'q') for p in prefixes] + [(d + 'q', 'q') for d in pdiff] + [('q', d + 'q') for d in pdiff] + [('_0', '__0'), ('__0', '_0'), ('_1', '_0'), ('_0', '_1'), ('__1', '_1')]
    pairs = list(dict.fromkeys(pairs))
    for (x, y) in pairs:
        for kind in ('sn', 'en'):
            for s in SETS + XSETS:
                nm = dict(NEUTRAL)
                nm['f1'], nm['f0'] = x, y
                jobs.append(('C19|fieldpair|%s+%s|%s|%s' % (x, y, kind, s), program(s, kind, nm), program(s, kind, nm, derive=False), 'fieldpair', x))
                nm = dict(NEUTRAL)
                nm['f1'], nm['f2'] = x, y
                if s != 'Default':
                    jobs.append(('C19|fieldpair2|%s+%s|%s|%s' % (x, y, kind, s), program(s, kind, nm), program(s, kind, nm, derive=False), 'fieldpair', x))
    # chains of generic parameters named like the successive fresh names a template would try (`__H`, `__H_`, `__H__`, ...) in every order, as type and const parameters
    fresh_bases = sorted({i.rstrip('_') for i in plain if i.startswith('__') and i.rstrip('_')})
    v.notes['fresh_name_bases'] = fresh_bases
    for base in fresh_bases:
        chain = [base, base + '_', base + '__']
        for r in (2, 3):
            for perm in itertools.permutations(chain[:r]):
                for consts in itertools.product((False, True), repeat=r):
                    if sum(consts) > 1 and r == 3:
                        continue
                    gd = ', '.join(('const %s: usize' % n) if c else n for n, c in zip(perm, consts))
                    fields = ', '.join(('pub g%d: [u8; %s]' % (k, n)) if c else ('pub g%d: %s' % (k, n)) for k, (n, c) in enumerate(zip(perm, consts)))
                    inst = ', '.join('2' if c else 'u8' for c in consts)
                    mkv = lambda val: 'Ty::<%s> { %s }' % (inst, ', '.join(('g%d: [%d, 0]' % (k, val)) if c else ('g%d: %d' % (k, val)) for k, c in enumerate(consts)))
                    for s_, tl, chk in (('Hash', 'Hash', 'r.ck(trace_of(&a).unwrap() != trace_of(&b).unwrap(), 0, &|| "hash does not depend on the fields".to_string());'),
                                        ('all', 'Debug, Clone, PartialEq, Eq, PartialOrd, Ord, Hash', 'r.ck(a != b && a < b && a.clone() == a, 0, &|| "impls do not follow the fields".to_string());')):
                        prog = '#[derive(Educe)]\n#[educe(%s)]\npub struct Ty<%s> { %s }\npub fn check(r: &mut Rep) {\n    let a = %s;\n    let b = %s;\n    %s\n}\n' % (tl, gd, fields, mkv(1), mkv(2), chk)
                        twin = 'pub struct Ty<%s> { %s }\npub trait VerifMarker {}\nimpl<%s> VerifMarker for Ty<%s> {}\n' % (gd, fields, gd, ', '.join(perm))
                        jobs.append(('C19|fresh-chain|%s|%s|%s' % ('+'.join(perm), ''.join('c' if c else 't' for c in consts), s_), prog, twin, 'fresh-chain', base))
    # a user function handed to `method(..)` by a one-segment path whose name is an identifier of the templates (a function called `f`, `state`, `other`, `source`, ...):
    # the name must still mean the user's function inside the generated body
    import re as _re
    for ident in plain:
        if not _re.fullmatch(r'[a-z_][a-z0-9_]*', ident) or not ident.strip('_'):
            continue
        for s_, old, alias in METHOD_SETS:
            for kind in ('sn', 'en'):
                head_ = ('#[allow(unused_imports)] use crate::sup::%s as %s;\n' % (alias, ident)) if alias else (
                    '#[allow(dead_code)] pub fn %s<X9: ::core::clone::Clone>(v: &X9) -> X9 { ::core::clone::Clone::clone(v) }\n' % ident)
                prog = program(s_, kind, NEUTRAL)
                guard('method(%s)' % old in prog, 'method spelling of %s changed' % s_)
                jobs.append(('C19|method|%s|%s|%s' % (ident, kind, s_), head_ + prog.replace('method(%s)' % old, 'method(%s)' % ident), head_ + program(s_, kind, NEUTRAL, derive=False), 'method', ident))
    # phase 1: the user's side must be well-typed on its own (hand-written marker impl, no derive)
    twins = [Case('twin|' + k, tw, run=False, expect='any') for k, p, tw, role, ident in jobs]
    tres = rt_run(twins, run=False, name='C19tw', shard_size=600)
    ok_jobs = [j for j, r in zip(jobs, tres) if r.status == 'ok']
    v.notes['dropped_user_side_ill_typed'] = len(jobs) - len(ok_jobs)
    v.notes['dropped_samples'] = sorted({'%s:%s' % (j[3], j[4]) for j, r in zip(jobs, tres) if r.status != 'ok'})[:40]
    cases = [Case(k, p, {'role': role, 'ident': ident}, expect='accept', run=True, depth=1) for k, p, tw, role, ident in ok_jobs]
    # environments
    for s in ENV_SETS:
        for kind in ('sn', 'en'):
            for n in ENV_NAMES + ENV_MODS + sorted(ENV_METHODS):
                cases.append(Case('C19|env|%s|%s|%s' % (n, kind, s), env_program(s, kind, [n]), {'env': [n], 'set': s}, expect='accept', run=True, depth=1))
            cases.append(Case('C19|env|ALLMETHODS|%s|%s' % (kind, s), env_program(s, kind, sorted(m for m in ENV_METHODS if m != 'm:builder')), {'env': 'all method traits (except the builder methods, which have a state of their own)', 'set': s}, expect='accept', run=True, depth=2))
            cases.append(Case('C19|env|ALL|%s|%s' % (kind, s), env_program(s, kind, ENV_NAMES + ENV_MODS), {'env': 'all', 'set': s}, expect='accept', run=True, depth=2))
            cases.append(Case('C19|env|none|%s|%s' % (kind, s), env_program(s, kind, []), {'env': [], 'set': s}, expect='accept', run=True, depth=0))
            # lint levels: the module denies the naming lints, the item (which allows them for itself) has fields, variants and parameters that are not snake / camel case
            for lk, names in (('camel-field', {'f1': 'userName', 'f2': 'sessionID'}), ('camel-fields-all', {'f0': 'aB', 'f1': 'userName', 'f2': 'X'}), ('snake-type', {'ty': 'my_type', 'v0': 'first_variant', 'v1': 'second_variant'})):
                # (generic parameters in unconventional case are a recorded C01 finding: the impl headers repeat them outside the item's own `allow`)
                nm_ = dict(NEUTRAL)
                nm_.update(names)
                cases.append(Case('C19|env|x:deny-naming-lints:%s|%s|%s' % (lk, kind, s), env_program(s, kind, [], nm=nm_, deny=True), {'env': 'deny(naming lints) around an item that allows them for itself', 'names': names, 'set': s}, expect='accept', run=True, depth=2))
            # macro namespace: 28 std macros shadowed by `macro_rules!` definitions in the textual scope of the derive (`stringify!` and `unreachable!`, which the templates use, included)
            cases.append(Case('C19|env|x:macros|%s|%s' % (kind, s), env_program(s, kind, ['x:macros']), {'env': 'macro_rules! decoys of 28 std macros', 'set': s}, expect='accept', run=True, depth=1))
    from .common import run_behavioural
    run_behavioural(v, cases, 'C19', nontrivial_min=1, min_nontrivial_ratio=0.5, shard_size=300)
    # #![no_std]: every trait set on every shape in one crate that does not link std
    ns = '#![no_std]\n#![allow(dead_code)]\nuse educe::Educe;\npub fn fmt_m<X: ::core::fmt::Debug>(v: &X, f: &mut ::core::fmt::Formatter<\'_>) -> ::core::fmt::Result { ::core::fmt::Debug::fmt(v, f) }\n'
    ncases = []
    for s in SETS + ['CopyCloneM', 'DebugFlipM', 'DebugOff']:
        for kind in ('sn', 'st', 'en'):
            body = program(s, kind, NEUTRAL, with_check=False)
            ncases.append(Case('C19|no_std|%s|%s' % (kind, s), body, {'env': 'no_std', 'set': s}, expect='accept', run=False, depth=1))
    for ts in ('Debug(unsafe)', 'Debug(unsafe, name = false)', 'PartialEq(unsafe), Eq', 'Hash(unsafe)', 'Copy, Clone', 'Default', 'Debug(unsafe), PartialEq(unsafe), Eq, Hash(unsafe), Copy, Clone, Default'):
        for decl in ('pub union Ty { #[educe(Default)] pub a: u8, pub b: u32 }', "pub union Ty<'l, P: ::core::marker::Copy, const CP: usize> { #[educe(Default)] pub a: [u8; CP], pub b: P, pub c: &'l u8 }"):
            if 'Default' not in ts:
                decl = decl.replace('#[educe(Default)] ', '')
            ncases.append(Case('C19|no_std|union|%s|%d' % (ts, len(decl)), '#[derive(Educe)]\n#[educe(%s)]\n%s\n' % (ts, decl), {'env': 'no_std', 'set': ts}, expect='accept', run=False, depth=1))
    nres = rt_run(ncases, run=False, name='C19ns', shard_size=1000, prelude='#![no_std]\n#![allow(dead_code)]\npub mod sup { pub fn fmt_m<X: ::core::fmt::Debug>(v: &X, f: &mut ::core::fmt::Formatter<\'_>) -> ::core::fmt::Result { ::core::fmt::Debug::fmt(v, f) } }\n')
    v.add_states(ncases)
    for r in nres:
        v.cov['evaluations'] += 1
        if r.status != 'ok' or r.warnings():
            v.violation(r.case, 'does not compile cleanly in a #![no_std] crate: %s' % '; '.join((d['code'] or '') + ' ' + d['msg'][:160] for d in (r.errors() + r.warnings())[:2]))
        else:
            v.cov['traces_validated_against_impl'] += 1
    return v.finish('(a) every identifier harvested from the expansions of the catalogue corpus (computed per run by the in-process engine, so identifiers introduced by a code change are picked up) x role '
                    '{field name, variant name, type parameter, const parameter, lifetime, type name} x shape {named struct, tuple struct, enum} x trait set {Debug with a method field, Clone with a method, '
                    'Copy+Clone, PartialEq+Eq, PartialOrd, Ord, Hash, Default with new, Deref+DerefMut, Into x2}; for field names additionally the attribute-dependent template paths {Debug with named_field flipped (with and without a method field), Debug with the name off, PartialEq / PartialOrd+Ord / Hash / Clone with methods on the neighbouring fields}; generic parameters named like the successive fresh names a template tries (harvested `__X` identifiers + `_`, `__`) in every order as type / const parameters; sibling fields whose names differ by a binding prefix the templates use (harvested), '
                    'tuple-binding names as field names; (b) the derive placed in a module that shadows, in the type and value namespaces, each of 34 prelude / std names and 13 module names, one at a '
                    'time and all at once; traits in scope that give every type a method named like a std method (into, clone, eq, cmp, hash, fmt, deref, default, ...); #![no_std] crate.  Guard: a twin with a hand-written marker impl and no derive must compile, otherwise the identifier / role pair is dropped as ill-typed '
                    'on the user\'s side.  Oracle: compiles and a behavioural mini-oracle per trait set gives the expected result',
                    {'bounds': {'tier': tier, 'colliding_identifiers_per_state': 1}})
