"""C05 — the data fed to a Hasher is a function of the variant and the non-ignored fields only."""
import itertools

from .. import shapes as S
from ..core import Case
from .common import place, CTX
from .c02 import assignments, assignments_k, WIDE, VERYWIDE, PROBE, verywide_assignments

IGN = ['{T}(ignore)', '{T} = false', '{T}(ignore = true)', '{T}(ignore(true))']
NOTIGN = [None, '{T} = true', '{T}(ignore = false)']


def meta(ch, carrier, salt, method):
    if ch == 'c':
        s = NOTIGN[salt % len(NOTIGN)]
        return None if s is None else s.format(T=carrier)
    if ch == 'i':
        return IGN[salt % len(IGN)].format(T=carrier)
    if ch == 'x':
        pm = 'hash_poison' if carrier == 'Hash' else 'eq_poison'
        return ['%s(ignore, method(%s))', '%s(method(%s), ignore)'][salt % 2] % (carrier, pm)
    return ['%s(method = "%s")', '%s(method(%s))', '%s(ignore = false, method(%s))', '%s(method(%s), ignore(false))'][salt % 4] % (carrier, method)


def build(shape, assign, cfg, ctx='alone', small_domain=False, repr=None, discr=None, probe=None, bound=None):
    """cfg: 'H' Hash only; 'HP' Hash + PartialEq with the same ignore/method choices; 'HQ' Hash + PartialEq whose every field says PartialEq(ignore)
    (what PartialEq ignores is PartialEq's business: the bytes fed to the hasher may not change)"""
    tys, fattrs, doms = [], [], []
    salt = 0
    for vi, f in enumerate(shape.variants):
        t, a, d = [], [], []
        for fi in range(f.n):
            ch = assign[vi][fi]
            salt += 1
            t.append('I' if ch in 'ix' else 'V')
            own = meta(ch, 'Hash', salt + vi, 'hash_m')
            lines = place(own, 'Debug(ignore)', ctx)
            if cfg == 'HP':
                pe = meta(ch, 'PartialEq', salt, 'eq_same')
                if pe:
                    lines = lines + ['#[educe(%s)]' % pe] if salt % 2 else ['#[educe(%s)]' % pe] + lines
            if cfg == 'HQ':
                pe = ['PartialEq(ignore)', 'PartialEq(ignore = true)', 'PartialEq = false'][salt % 3]
                lines = lines + ['#[educe(%s)]' % pe] if salt % 2 else ['#[educe(%s)]' % pe] + lines
            a.append(lines)
            if probe is not None and fi not in probe and ch not in 'ix':
                d.append(['V(1)'])
            else:
                d.append(['I(0)', 'I(1)'] if ch in 'ix' else (['V(0)', 'V(1)'] if small_domain else ['V(0)', 'V(1)', 'V(2)']))
        tys.append(t)
        fattrs.append(a)
        doms.append(d)
    traits = 'Hash' if cfg == 'H' else 'PartialEq, Hash'
    if bound:
        traits = traits.replace('Hash', 'Hash(%s)' % bound)
    if ctx != 'alone':
        traits = ('Debug, ' + traits) if ctx.endswith('before') else (traits + ', Debug')
        derives = 'Educe'
    else:
        derives = 'Educe, Debug'
    src = S.render_type(shape, ['#[educe(%s)]' % traits], tys, fattrs, derives=derives, discr=discr, pre_attrs=(['#[repr(%s)]' % repr] if repr else []))
    vals = S.all_values(shape, doms)
    src += 'fn values() -> Vec<Ty> {\n    vec![\n%s    ]\n}\n' % ''.join('        %s,\n' % v for v in vals)
    arms = []
    for vi, f in enumerate(shape.variants):
        binds = ['_' if assign[vi][i] in 'ix' else 'a%d' % i for i in range(f.n)]
        ft, key = [], ['%du8' % vi]
        for i in range(f.n):
            ch = assign[vi][i]
            if ch == 'c':
                ft.append('format!("u8:{}", a%d.0)' % i)
                key.append('a%d.0' % i)
            elif ch == 'm':
                ft.append('format!("u16:{}", 0x100 + a%d.0 as u16)' % i)
                key.append('a%d.0' % i)
        arms.append('        %s => (%d, vec![%s], vec![%s]),\n' % (S.pattern(shape, vi, binds), vi, ', '.join(ft), ', '.join(key)))
    src += 'fn info(x: &Ty) -> (usize, Vec<String>, Vec<u8>) {\n    match x {\n%s    }\n}\n' % ''.join(arms)
    src += 'pub fn check(r: &mut Rep) {\n    let vs = values();\n    hash_check(r, &vs, &info, %s, %s);\n}\n' % (
        'Some(&|a: &Ty, b: &Ty| a == b)' if cfg == 'HP' else 'None', 'true' if shape.kind == 'struct' else 'false')
    depth = sum(1 for a in assign for ch in a if ch != 'c') + (cfg == 'HP') + (ctx != 'alone')
    key = 'C05|%s|%s|%s%s%s%s' % (cfg, shape.code(), ','.join(assign), '' if ctx == 'alone' else '|' + ctx, '|repr(%s)' % repr if repr else '', ('|d=%s' % ','.join('_' if d is None else str(d) for d in discr) if discr else '') + ('|' + bound if bound else ''))
    return Case(key, src, {'cfg': cfg, 'shape': shape.code(), 'assign': list(assign), 'ctx': ctx, 'values': len(vals)},
                expect='accept', run=True, depth=depth)


def build_many(nv, cfg):
    """more variants than a byte can number: the data fed must still tell every pair of variants apart"""
    payload = {3: 't', 130: 'n', nv - 41: 't', nv - 37: 'n', nv - 1: 't'}
    decl, vals, arms = [], [], []
    for i in range(nv):
        k = payload.get(i)
        if k == 't':
            decl.append('V%d(V)' % i)
            vals += ['Ty::V%d(V(0))' % i, 'Ty::V%d(V(1))' % i]
            arms.append('Ty::V%d(a) => (%d, a.0)' % (i, i))
        elif k == 'n':
            decl.append('V%d { f0: V }' % i)
            vals += ['Ty::V%d { f0: V(0) }' % i, 'Ty::V%d { f0: V(1) }' % i]
            arms.append('Ty::V%d { f0 } => (%d, f0.0)' % (i, i))
        else:
            decl.append('V%d' % i)
            vals.append('Ty::V%d' % i)
            arms.append('Ty::V%d => (%d, 0)' % (i, i))
    traits = 'Hash' if cfg == 'H' else 'PartialEq, Hash'
    src = '#[derive(Educe, Debug)]\n#[educe(%s)]\npub enum Ty {\n%s}\n' % (traits, ''.join('    %s,\n' % d for d in decl))
    src += 'fn values() -> Vec<Ty> {\n    vec![\n%s    ]\n}\n' % ''.join('        %s,\n' % v for v in vals)
    src += 'fn key(x: &Ty) -> (u16, u8) {\n    match x {\n%s    }\n}\n' % ''.join('        %s,\n' % a for a in arms)
    src += ('pub fn check(r: &mut Rep) {\n    let vs = values();\n    let ts: Vec<Vec<String>> = vs.iter().map(|x| trace_of(x).unwrap()).collect();\n'
            '    for i in 0..vs.len() {\n        for j in 0..vs.len() {\n            let same = key(&vs[i]) == key(&vs[j]);\n'
            '            r.ck((ts[i] == ts[j]) == same, same as u64, &|| format!("hash: {:?} and {:?} {} on variant and fields but fed {:?} and {:?}", vs[i], vs[j], '
            'if same { "agree" } else { "differ" }, ts[i], ts[j]));\n        }\n    }\n}\n')
    return Case('C05|%s|many|%d' % (cfg, nv), src, {'cfg': cfg, 'variants': nv, 'values': len(vals)}, expect='accept', run=True, depth=1)


def generate(tier):
    cases = []
    if tier == 'quick':
        shapes = S.struct_shapes(3, with_empty=True) + S.enum_shapes(2, 2)
    else:
        shapes = S.struct_shapes(4, with_empty=True) + S.enum_shapes(2, 3) + S.enum_shapes(3, 2, vmin=3)
    for sh in shapes:
        for assign in assignments(sh, 'cimx' if sum(f.n for f in sh.variants) <= 2 else 'cim'):
            for cfg in ('H', 'HP'):
                cases.append(build(sh, assign, cfg))
            if any(ch in 'cm' for a in assign for ch in a) and len(sh.positions()) <= 3:
                cases.append(build(sh, assign, 'HQ'))
    # explicit discriminants (which must not leak into the variant tag in a way that merges variants) and #[repr]
    U, T1, N1 = S.Fields('u'), S.Fields('t', 1), S.Fields('n', 1)
    for vs in ([U, U, U, U], [U, U, U], [T1, U, N1, U], [U, T1, N1]):
        sh = S.Shape('enum', vs)
        unit_only = all(f.style == 'u' for f in vs)
        n = len(vs)
        pats = [[1] + [None] * (n - 1), [None] * (n - 1) + [0], [2, None, 0, None][:n], [n - 1 - i for i in range(n)], [None, 0] + [None] * (n - 2), [3, None, 1, None][:n], [10, 0, None, None][:n]]
        for d in pats:
            from .c04 import resolve
            if len(set(resolve(d))) != n:
                continue
            for repr in ((None, 'u8', 'u16') if unit_only else ('u8', 'i16', 'C, u8')):
                for assign in assignments(sh, 'cim') if not unit_only else [tuple('' for _ in vs)]:
                    cases.append(build(sh, assign, 'H', repr=repr, discr=d))
    for sh in (S.Shape('struct', [S.Fields('n', 2)]), S.Shape('struct', [S.Fields('t', 3)]), S.Shape('enum', [T1, N1])):
        for repr in ('C', 'packed', 'C, packed(2)', 'align(8)') if sh.kind == 'struct' else ('C', 'u8', 'align(4)'):
            for assign in assignments(sh, 'cim'):
                cases.append(build(sh, assign, 'HP', repr=repr))
    # zero-field tuple / struct-like variants next to unit variants and each other: every variant keeps a tag of its own
    T0, N0, U_, T1_ = S.Fields('t', 0), S.Fields('n', 0), S.Fields('u'), S.Fields('t', 1)
    for vs in ([T0, N0], [U_, T0, N0], [T0, T1_, N0], [N0, N0, T0, T0], [U_, N0, U_, T0]):
        sh = S.Shape('enum', vs)
        for assign in assignments(sh, 'cim'):
            for cfg in ('H', 'HP'):
                cases.append(build(sh, assign, cfg))
    for sh in WIDE:
        for assign in assignments_k(sh, 'cimx', 2 if tier == 'quick' else 3):
            cases.append(build(sh, assign, 'HP' if len(assign) % 2 else 'H', small_domain=True))
    for sh in VERYWIDE:
        for assign in verywide_assignments(sh, 'cim'):
            cases.append(build(sh, assign, 'H', small_domain=True, probe=PROBE))
    # two named variants that use the same field names at different positions (V0 {f0, f1}, V1 {f1, f0})
    for sh in [S.Shape('enum', [S.Fields('n', 2), S.Fields('n', 2)]), S.Shape('enum', [S.Fields('t', 1), S.Fields('n', 2)]), S.Shape('enum', [S.Fields('n', 1), S.Fields('u'), S.Fields('n', 3)])]:
        for assign in assignments(sh, 'cim'):
            for cfg in ('H', 'HP'):
                with S.naming('rot'):
                    c = build(sh, assign, cfg)
                c.key += '|rot'
                cases.append(c)
    # explicit bound modes (the types are not generic: no mode may change what is fed)
    for sh in [S.Shape('struct', [S.Fields('n', 2)]), S.Shape('struct', [S.Fields('t', 2)]), S.Shape('enum', [S.Fields('t', 2), S.Fields('n', 2)]), S.Shape('enum', [S.Fields('n', 1), S.Fields('u'), S.Fields('t', 1)]),
               S.Shape('enum', [S.Fields('t', 4), S.Fields('n', 3), S.Fields('u')])]:
        for assign in assignments_k(sh, 'cim', 1 if len(sh.positions()) <= 4 else 2):
            for bound in ('bound(*)', 'bound = false', 'bound(u8: Copy)', 'bound = "u8: Copy,"'):
                cases.append(build(sh, assign, 'H', bound=bound, small_domain=True))
    for nv in (256, 257, 300):
        cases.append(build_many(nv, 'H' if nv != 257 else 'HP'))
    from .common import zoo_cases
    from .common import unsized_cases
    cases += unsized_cases('C05')
    cases += zoo_cases('C05', 'Hash', 'Debug, Clone, PartialEq', 'Debug, Clone, PartialEq, Hash',
                       '    for (i, (a, ta)) in vs.iter().enumerate() {\n'
                       '        let same_as_std = trace_of(a).unwrap() == trace_of(ta).unwrap();\n'
                       '        if !IS_ENUM { r.ck(same_as_std, 0, &|| format!("value #{}: feeds {:?}, #[derive(Hash)] feeds {:?}", i, trace_of(a).unwrap(), trace_of(ta).unwrap())); }\n'
                       '        for (j, (b, tb)) in vs.iter().enumerate() {\n'
                       '            let eq = trace_of(a).unwrap() == trace_of(b).unwrap();\n'
                       '            r.ck(eq == (ta == tb), 1 + (ta == tb) as u64, &|| format!("values #{} and #{}: equal hash input {}, equal values {}", i, j, eq, ta == tb));\n        }\n    }\n')
    cases += zoo_cases('C05|zm', 'Hash', 'Debug, Clone, PartialEq', 'Debug, Clone, PartialEq, Hash',
                       '    for (i, (a, ta)) in vs.iter().enumerate() {\n'
                       '        let same_as_std = trace_of(a).unwrap() == trace_of(ta).unwrap();\n'
                       '        if !IS_ENUM { r.ck(same_as_std, 0, &|| format!("value #{}: feeds {:?}, #[derive(Hash)] feeds {:?}", i, trace_of(a).unwrap(), trace_of(ta).unwrap())); }\n'
                       '        for (j, (b, tb)) in vs.iter().enumerate() {\n'
                       '            let eq = trace_of(a).unwrap() == trace_of(b).unwrap();\n'
                       '            r.ck(eq == (ta == tb), 1 + (ta == tb) as u64, &|| format!("values #{} and #{}: equal hash input {}, equal values {}", i, j, eq, ta == tb));\n        }\n    }\n', z_attr='Hash(method(zoo_m_hash))')
    cases += zoo_cases('C05|zi', 'Hash', 'Debug, Clone, PartialEq', 'Debug, Clone, PartialEq, Hash',
                       '    for (i, (a, ta)) in vs.iter().enumerate() {\n'
                       '        let same_as_std = trace_of(a).unwrap() == trace_of(ta).unwrap();\n'
                       '        if !IS_ENUM { r.ck(same_as_std, 0, &|| format!("value #{}: feeds {:?}, #[derive(Hash)] feeds {:?}", i, trace_of(a).unwrap(), trace_of(ta).unwrap())); }\n'
                       '        for (j, (b, tb)) in vs.iter().enumerate() {\n'
                       '            let eq = trace_of(a).unwrap() == trace_of(b).unwrap();\n'
                       '            r.ck(eq == (ta == tb), 1 + (ta == tb) as u64, &|| format!("values #{} and #{}: equal hash input {}, equal values {}", i, j, eq, ta == tb));\n        }\n    }\n', ign_attr='Hash(ignore)')
    for c in cases:
        if '|zoo|' in c.key:
            c.body = c.body.replace('pub fn check(', 'const IS_ENUM: bool = %s;\npub fn check(' % ('true' if c.key.endswith('|en') else 'false'))
    from .common import rawify
    for c in [x for x in cases if x.key.startswith('C05|H|s:n2|') or x.key.startswith('C05|HP|e:n2,n1|')]:
        r_ = rawify(c)
        if r_:
            cases.append(r_)
    from .common import underscorify
    for c in [x for x in cases if (x.key.startswith('C05|H|s:n2|') or x.key.startswith('C05|HP|e:n2,n1|') or x.key.startswith('C05|H|e:n2|') or x.key.startswith('C05|H|s:n3|')) and '|raw' not in x.key]:
        r_ = underscorify(c)
        if r_:
            cases.append(r_)
        from .common import localsify
        for sch in (0, 1, 2):
            r_ = localsify(c, sch)
            if r_:
                cases.append(r_)
    for sh in S.struct_shapes(2) + S.enum_shapes(2, 1) + [S.Shape('enum', [S.Fields('t', 2), S.Fields('n', 2)]),
                                                          S.Shape('enum', [S.Fields('u'), S.Fields('t', 2)])]:
        if not sh.positions():
            continue
        for assign in assignments(sh, 'cim'):
            for ctx in CTX[1:]:
                cases.append(build(sh, assign, 'H', ctx=ctx))
    from .common import decoy_layer
    cases += decoy_layer([c for c in cases if c is not None])
    seen, out = set(), []
    for c in cases:
        if c.key not in seen:
            seen.add(c.key)
            out.append(c)
    return out


RULE = ('wide shapes (5-6 fields, 5-6 variants) with at most 2 (thorough 3) deviating positions; every struct/enum shape within the bound x every assignment of {hashed, ignored (type whose Hash panics), method} '
        'per field x {Hash alone, Hash + PartialEq with the same choices} x attribute contexts; per program every value over '
        '{0,1,2} through a recording Hasher: the fed data must end with the modelled field data in declaration order, the '
        'data fed before it must be constant per variant, and for all ordered pairs the traces are equal iff variant and '
        'non-ignored fields agree; with PartialEq, a == b implies equal traces; non-trivial = equal and unequal traces observed')


def check(v, tier):
    from .common import run_behavioural
    cases = generate(tier)
    run_behavioural(v, cases, 'C05', nontrivial_min=3, min_nontrivial_ratio=0.8)
    return v.finish(RULE, {'bounds': {'tier': tier, 'quick': 'structs F<=3, enums V<=2 F<=2', 'thorough': 'structs F<=4, enums V<=2 F<=3 and V=3 F<=2'}})
