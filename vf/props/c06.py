"""C06 — Debug renders the effective shape exactly like core::fmt's builders."""
import itertools

from .. import shapes as S
from ..core import shash, Case
from .common import place, CTX

# field alphabet: s shown, r renamed, i ignored, m method, x renamed+method (name first), y method+renamed (method first)
FIELD_TY = ['V', 'Nest', 'Vec<u8>']
FIELD_VAL = [['V(1)', 'V(22)'], ['nest(3)', 'nest(40)'], ['vec![5u8, 6]', 'vec![]']]


def name_meta(mode, newname, sp, level):
    """mode: d default, r renamed, o off, e enabled (enum level only)"""
    if mode == 'd':
        return None
    if mode == 'r':
        return ['Debug = %s' % newname, 'Debug(name = %s)' % newname, 'Debug(name(%s))' % newname, 'Debug(rename = %s)' % newname,
                'Debug(rename(%s))' % newname, 'Debug(name = "%s")' % newname, 'Debug = "%s"' % newname][sp % 7]
    if mode == 'o':
        return ['Debug(name = false)', 'Debug(name(false))', 'Debug(name = "")', 'Debug(rename = false)'][sp % 4]
    if mode == 'e':
        return ['Debug(name = true)', 'Debug(name(true))'][sp % 2]
    raise ValueError(mode)


def combine(meta, extra):
    """add a parameter to a type/variant-level Debug meta"""
    if meta is None:
        return 'Debug(%s)' % extra
    if meta.startswith('Debug = '):
        return 'Debug(name = %s, %s)' % (meta[len('Debug = '):], extra)
    return meta[:-1] + ', ' + extra + ')' if shash(meta) % 2 else 'Debug(' + extra + ', ' + meta[len('Debug('):]


def field_meta(ch, key, sp):
    if ch == 's':
        return [None, 'Debug = true', 'Debug(ignore = false)'][sp % 3]
    if ch == 'r':
        return ['Debug = %s' % key, 'Debug(name = %s)' % key, 'Debug(name(%s))' % key, 'Debug(rename = "%s")' % key, 'Debug(rename(%s))' % key,
                'Debug(name = %s, ignore = false)' % key, 'Debug(ignore(false), rename(%s))' % key][sp % 7]
    if ch == 'i':
        return ['Debug = false', 'Debug(ignore)', 'Debug(ignore = true)', 'Debug(ignore(true))'][sp % 4]
    if ch == 'm':
        return ['Debug(method(fmt_m))', 'Debug(method = "fmt_m")', 'Debug(method(crate::sup::fmt_m))', 'Debug(ignore = false, method(fmt_m))', 'Debug(method(fmt_m), ignore(false))'][sp % 5]
    if ch == 'x':
        return ['Debug(name = %s, method(fmt_m))' % key, 'Debug(rename(%s), method = "fmt_m")' % key, 'Debug(name = %s, ignore = false, method(fmt_m))' % key][sp % 3]
    if ch == 'y':
        return ['Debug(method(fmt_m), name = %s)' % key, 'Debug(method = "fmt_m", rename(%s))' % key, 'Debug(ignore = false, method(fmt_m), name = %s)' % key][sp % 3]
    if ch == 'z':
        return ['Debug(ignore, method(fmt_poison))', 'Debug(method(fmt_poison), ignore = true)'][sp % 2]
    raise ValueError(ch)


def model_body(style, name, shown):
    """style struct|map|tuple|unit; shown: list of (key, bind, method?)"""
    def val(b, m):
        return '&Via(%s)' % b if m else b
    if style == 'unit':
        return 'f.write_str("%s")' % name
    if style == 'struct':
        s = 'let mut b = f.debug_struct("%s"); ' % name
        s += ''.join('b.field("%s", %s); ' % (k, val(b, m)) for k, b, m in shown)
    elif style == 'map':
        s = 'let mut b = f.debug_map(); '
        s += ''.join('b.entry(&Raw("%s"), %s); ' % (k, val(b, m)) for k, b, m in shown)
    else:
        s = 'let mut b = f.debug_tuple("%s"); ' % (name or '')
        s += ''.join('b.field(%s); ' % val(b, m) for k, b, m in shown)
    return s + 'b.finish()'


def element(fl, assign, named_field, name, sp0):
    """effective rendering of one struct / variant.  Returns (style, shown list, field types, field attr metas, values) or
    None if the request is not in the accepted space (rename on positional field, nothing to print)."""
    tys, metas, shown, vals = [], [], [], []
    for fi in range(fl.n):
        ch = assign[fi]
        renamed = ch in 'rxy'
        if renamed and not named_field:
            return None
        key = ('k%d' % fi if (sp0 + fi) % 2 else 'kü%d' % fi) if renamed else ('f%d' % fi if fl.style == 'n' else '_%d' % fi)
        tys.append('ID' if ch in 'iz' else FIELD_TY[fi % 3])
        vals.append(['ID(0)', 'ID(1)'] if ch in 'iz' else FIELD_VAL[fi % 3])
        metas.append(field_meta(ch, key, sp0 + fi))
        if ch not in 'iz':
            shown.append((key, 'a%d' % fi, ch in 'mxy'))
    if fl.style == 'u':
        if name is None:
            return None
        return 'unit', shown, tys, metas, vals
    if not shown and name is None:
        return None
    if named_field:
        style = 'struct' if name is not None else 'map'
    else:
        style = 'tuple'
    return style, shown, tys, metas, vals


def build_struct(fl, assign, nmode, nf_flip, sp, ctx='alone', generic=False):
    is_tuple = fl.style == 't'
    # for a unit struct educe treats the shape as "not tuple" => named_field defaults to true
    named_default = not is_tuple
    named_field = named_default != nf_flip
    rn = 'Renamed' if sp % 2 else 'Renämed_ß'
    name = {'d': 'Ty', 'r': rn, 'o': None}[nmode]
    el = element(fl, assign, named_field, name, sp)
    if el is None:
        return None
    style, shown, tys, metas, vals = el
    if fl.style == 'u':
        style = 'struct' if named_field else 'tuple'   # unit struct: builder without fields
    tmeta = name_meta(nmode, rn, sp, 'type')
    if nf_flip:
        tmeta = combine(tmeta, ['named_field = %s', 'named_field(%s)'][sp % 2] % ('true' if named_field else 'false'))
    gen, tyn, where = '', 'Ty', ''
    if generic:
        gen, tyn, where = "<'a, T: Clone, const CN: usize>", "Ty<'a, T, CN>", 'where T: PartialEq'
    traits = tmeta or 'Debug'
    if ctx != 'alone':
        traits = ('Hash, ' + traits) if ctx.endswith('before') else (traits + ', Hash')
    fattrs = [place(m, 'Hash(ignore)', ctx) for m in metas]
    ftys = list(tys)
    if generic:
        ftys = ftys + ["&'a [T; CN]"] if fl.style != 'u' else ftys
        if fl.style == 'u':
            return None
        fattrs = fattrs + [place('Debug(ignore)', 'Hash(ignore)', ctx)]
        fl2 = S.Fields(fl.style, fl.n + 1)
    else:
        fl2 = fl
    shape = S.Shape('struct', [fl2])
    src = S.render_type(shape, ['#[educe(%s)]' % traits], [ftys], [fattrs], generics=gen, where=where, derives='Educe')
    extra_val = ['&[]'] if generic else []
    extra_bind = ['_'] if generic else []
    inst = "Ty<'static, u8, 0>" if generic else 'Ty'
    values = [S.ctor(shape, 0, [v[k % len(v)] for v in vals] + extra_val) for k in range(2)]
    src += 'fn values() -> Vec<%s> {\n    vec![%s]\n}\n' % (inst, ', '.join(values))
    binds = ['a%d' % i if assign[i] not in 'iz' else '_' for i in range(fl.n)] + extra_bind
    src += 'fn model(x: &%s, f: &mut std::fmt::Formatter<\'_>) -> std::fmt::Result {\n    let %s = x;\n    %s\n}\n' % (
        inst, S.pattern(shape, 0, binds), model_body(style, name, shown))
    src += 'pub fn check(r: &mut Rep) {\n    let vs = values();\n    debug_check(r, &vs, &|x, alt| if alt { format!("{:#?}", x) } else { format!("{:?}", x) }, model);\n}\n'
    key = 'C06|s|%s|%s|n%s|%s|%d%s%s' % (fl.code(), assign, nmode, 'flip' if nf_flip else 'nf', sp % 7, '' if ctx == 'alone' else '|' + ctx, '|G' if generic else '')
    depth = sum(1 for c in assign if c != 's') + (nmode != 'd') + nf_flip + (ctx != 'alone') + generic
    return Case(key, src, {'kind': 'struct', 'fields': fl.code(), 'assign': assign, 'name': nmode, 'named_field_flipped': bool(nf_flip), 'ctx': ctx},
                expect='accept', run=True, depth=depth)


def build_enum(fl, assign, emode, vmode, nf_flip, place_first, sp, ctx='alone', generic=False):
    rn = 'Renamed' if sp % 2 else 'Größen'
    vn = 'Vx' if (sp // 2) % 2 else 'Vß'
    ename = {'d': None, 'e': 'Ty', 'r': rn}[emode]
    vname = {'d': 'V%d' % (0 if place_first else 1), 'r': vn, 'o': None}[vmode]
    focus = 0 if place_first else 1
    if ename and vname:
        name = '%s::%s' % (ename, vname)
    else:
        name = ename or vname
    named_field = (fl.style == 'n') != nf_flip
    el = element(fl, assign, named_field, name, sp)
    if el is None:
        return None
    style, shown, tys, metas, vals = el
    emeta = name_meta(emode, rn, sp, 'type')
    vmeta = name_meta(vmode, vn, sp + 1, 'variant')
    if nf_flip:
        if fl.style == 'u':
            return None
        vmeta = combine(vmeta, ['named_field = %s', 'named_field(%s)'][sp % 2] % ('true' if named_field else 'false'))
    # sibling: a plain tuple variant (name: default variant name, prefixed when the enum name is on)
    sib = S.Fields('t', 1)
    sib_name = ('%s::' % ename if ename else '') + 'V%d' % (1 - focus)
    variants = [fl, sib] if place_first else [sib, fl]
    shape = S.Shape('enum', variants)
    traits = emeta or 'Debug'
    if ctx != 'alone':
        traits = ('Hash, ' + traits) if ctx.endswith('before') else (traits + ', Hash')
    fattrs_focus = [place(m, 'Hash(ignore)', ctx) for m in metas]
    tys_all = [tys, ['V']] if place_first else [['V'], tys]
    fattrs_all = [fattrs_focus, [[]]] if place_first else [[[]], fattrs_focus]
    vattrs = [[], []]
    if vmeta:
        vattrs[focus] = ['#[educe(%s)]' % vmeta]
    gen, inst, where = '', 'Ty', ''
    extra_val, extra_bind = [], []
    if generic:
        if fl.style == 'u':
            return None
        gen, inst, where = "<'a, T: Clone, const CN: usize>", "Ty<'static, u8, 0>", 'where T: PartialEq'
        fl2 = S.Fields(fl.style, fl.n + 1)
        variants = [fl2, sib] if place_first else [sib, fl2]
        shape = S.Shape('enum', variants)
        tys_all[focus] = tys_all[focus] + ["&'a [T; CN]"]
        fattrs_all[focus] = fattrs_all[focus] + [place('Debug(ignore)', 'Hash(ignore)', ctx)]
        extra_val, extra_bind = ['&[]'], ['_']
    src = S.render_type(shape, ['#[educe(%s)]' % traits], tys_all, fattrs_all, vattrs, generics=gen, where=where, derives='Educe')
    values = [S.ctor(shape, focus, [v[k % len(v)] for v in vals] + extra_val) for k in range(2)] + [S.ctor(shape, 1 - focus, ['V(7)'])]
    src += 'fn values() -> Vec<%s> {\n    vec![%s]\n}\n' % (inst, ', '.join(values))
    binds = ['a%d' % i if assign[i] not in 'iz' else '_' for i in range(fl.n)] + extra_bind
    src += ('fn model(x: &%s, f: &mut std::fmt::Formatter<\'_>) -> std::fmt::Result {\n    match x {\n        %s => { %s }\n'
            '        %s => { %s }\n    }\n}\n') % (inst, S.pattern(shape, focus, binds), model_body(style, name, shown),
                                               S.pattern(shape, 1 - focus, ['a0']), model_body('tuple', sib_name, [('_0', 'a0', False)]))
    src += 'pub fn check(r: &mut Rep) {\n    let vs = values();\n    debug_check(r, &vs, &|x, alt| if alt { format!("{:#?}", x) } else { format!("{:?}", x) }, model);\n}\n'
    key = 'C06|e|%s@%d|%s|e%s|v%s|%s|%d%s%s' % (fl.code(), focus, assign, emode, vmode, 'flip' if nf_flip else 'nf', sp % 7, '' if ctx == 'alone' else '|' + ctx, '|G' if generic else '')
    depth = sum(1 for c in assign if c != 's') + (emode != 'd') + (vmode != 'd') + nf_flip + (ctx != 'alone') + generic
    return Case(key, src, {'kind': 'enum', 'fields': fl.code(), 'focus': focus, 'assign': assign, 'enum_name': emode, 'variant_name': vmode,
                           'named_field_flipped': bool(nf_flip), 'ctx': ctx}, expect='accept', run=True, depth=depth)


def build_twin(shape):
    """no educe parameters: byte-identical to #[derive(Debug)] on a twin of the same name"""
    tys, vals = [], []
    for f in shape.variants:
        tys.append([FIELD_TY[i % 3] for i in range(f.n)])
        vals.append([FIELD_VAL[i % 3] for i in range(f.n)])
    fattrs = [[[] for _ in range(f.n)] for f in shape.variants]
    tmeta = 'Debug' if shape.kind == 'struct' else 'Debug'
    src = S.render_type(shape, ['#[educe(%s)]' % tmeta], tys, fattrs, derives='Educe')
    src += 'mod tw {\n    use crate::sup::*;\n' + S.render_type(shape, [], tys, fattrs, derives='Debug').replace('\n', '\n    ') + '\n}\n'
    pairs = []
    for vi, f in enumerate(shape.variants):
        for k in range(2):
            ex = [v[k % len(v)] for v in vals[vi]]
            pairs.append('(%s, %s)' % (S.ctor(shape, vi, ex), S.ctor(shape, vi, ex, name='tw::Ty')))
    src += 'pub fn check(r: &mut Rep) {\n    let vs = vec![%s];\n' % ', '.join(pairs)
    src += ('    for (i, (a, b)) in vs.iter().enumerate() {\n'
            '        r.ck(format!("{:?}", a) == format!("{:?}", b), 0, &|| format!("value #{}: {:?} differs from #[derive(Debug)] {:?}", i, format!("{:?}", a), format!("{:?}", b)));\n'
            '        r.ck(format!("{:#?}", a) == format!("{:#?}", b), 1, &|| format!("value #{}: pretty output differs from #[derive(Debug)]: {:?} vs {:?}", i, format!("{:#?}", a), format!("{:#?}", b)));\n'
            '    }\n}\n')
    return Case('C06|twin|' + shape.code(), src, {'kind': 'twin', 'shape': shape.code()}, expect='accept', run=True, depth=0)


def generate(tier):
    cases = []

    def add(c):
        if c is not None:
            cases.append(c)
    fmax = 2 if tier == 'quick' else 3
    sp = 0
    lists = [S.Fields('u')] + [S.Fields(s, n) for n in range(0, fmax + 1) for s in 'tn']
    for fl in lists:
        alph = 'srimxyz' if fl.n <= 2 else 'srim'
        for assign in itertools.product(alph, repeat=fl.n):
            assign = ''.join(assign)
            for nmode in 'dro':
                for flip in (0, 1):
                    sp += 1
                    add(build_struct(fl, assign, nmode, flip, sp))
    for fl in lists:
        alph = 'srimxyz' if fl.n <= 1 else ('srimz' if (tier == 'quick' or fl.n > 2) else 'srimxyz')
        for assign in itertools.product(alph, repeat=fl.n):
            assign = ''.join(assign)
            for emode in 'der':
                for vmode in 'dro':
                    for flip in (0, 1):
                        for first in (True, False):
                            sp += 1
                            add(build_enum(fl, assign, emode, vmode, flip, first, sp))
    # wide elements: 4 and 5 fields, at most two deviating fields, name / named_field at their defaults and flipped
    for fl in (S.Fields('t', 4), S.Fields('n', 5)):
        devs = 'rimxyz' if fl.style == 'n' else 'imz'
        for r in (0, 1, 2):
            for where in itertools.combinations(range(fl.n), r):
                for syms in itertools.product(devs, repeat=r):
                    a = ['s'] * fl.n
                    for w, sy in zip(where, syms):
                        a[w] = sy
                    assign = ''.join(a)
                    for flip in (0, 1):
                        if flip and r == 2 and tier == 'quick':
                            continue
                        sp += 1
                        add(build_struct(fl, assign, 'd' if r % 2 == 0 else 'o', flip, sp))
                        add(build_enum(fl, assign, 'de'[sp % 2], 'dro'[sp % 3], flip, bool(sp % 2), sp))
    # very wide: 12 fields, one deviating field at positions 0, 1, 9, 10, 11
    for fl in (S.Fields('t', 12), S.Fields('n', 12)):
        for w in (None, 0, 1, 9, 10, 11):
            for sy in ('imz' if fl.style == 't' else 'rimxz') if w is not None else 's':
                a = ['s'] * 12
                if w is not None:
                    a[w] = sy
                for flip in (0, 1):
                    sp += 1
                    add(build_struct(fl, ''.join(a), 'd', flip, sp))
                    add(build_enum(fl, ''.join(a), 'd', 'd', flip, True, sp))
    # #[derive(Debug)] twins with no parameters (enum: the enum name is off by default, like the std derive)
    for sh in S.struct_shapes(3, with_empty=True) + S.enum_shapes(2, 2) + S.enum_shapes(3, 1, vmin=3):
        add(build_twin(sh))
    from .common import zoo_cases
    from .common import unsized_cases
    cases += unsized_cases('C06')
    for c in zoo_cases('C06', 'Debug', 'Clone', 'Debug, Clone',
                       '    for (i, (a, ta)) in vs.iter().enumerate() {\n'
                       '        r.ck(format!("{:?}", a) == format!("{:?}", ta), 0, &|| format!("value #{}: {:?} differs from #[derive(Debug)] {:?}", i, format!("{:?}", a), format!("{:?}", ta)));\n'
                       '        r.ck(format!("{:#?}", a) == format!("{:#?}", ta), 1, &|| format!("value #{}: pretty output differs from #[derive(Debug)]: {:?} vs {:?}", i, format!("{:#?}", a), format!("{:#?}", ta)));\n'
                       '    }\n'):
        add(c)
    for c in zoo_cases('C06|zm', 'Debug', 'Clone', 'Debug, Clone',
                       '    for (i, (a, ta)) in vs.iter().enumerate() {\n'
                       '        r.ck(format!("{:?}", a) == format!("{:?}", ta), 0, &|| format!("value #{}: {:?} differs from #[derive(Debug)] {:?}", i, format!("{:?}", a), format!("{:?}", ta)));\n'
                       '        r.ck(format!("{:#?}", a) == format!("{:#?}", ta), 1, &|| format!("value #{}: pretty output differs from #[derive(Debug)]: {:?} vs {:?}", i, format!("{:#?}", a), format!("{:#?}", ta)));\n'
                       '    }\n', z_attr='Debug(method(zoo_m_fmt))'):
        add(c)
    # generics around the method wrapper, attribute contexts
    for fl in (S.Fields('t', 2), S.Fields('n', 2)):
        for assign in ('ms', 'sm', 'mm', 'xs' if fl.style == 'n' else 'mi', 'im'):
            for nmode in 'do':
                sp += 1
                add(build_struct(fl, assign, nmode, 0, sp, generic=True))
                for first in (True, False):
                    add(build_enum(fl, assign, 'e' if nmode == 'd' else 'd', 'd', 0, first, sp, generic=True))
                    add(build_enum(fl, assign, 'd', 'o' if nmode == 'o' else 'r', 1, first, sp + 1, generic=True))
            for ctx in CTX[1:]:
                sp += 1
                add(build_struct(fl, assign, 'd', 0, sp, ctx=ctx))
                add(build_enum(fl, assign, 'e', 'r', 0, True, sp, ctx=ctx))
    from .common import underscorify, localsify
    named = [c for c in cases if c is not None and ('|n1|' in c.key or '|n2|' in c.key or '|n2@' in c.key or '|n1@' in c.key or '|n5' in c.key)]
    for c in named[::6]:
        for tr in (underscorify, lambda c_: localsify(c_, 0), lambda c_: localsify(c_, 1), lambda c_: localsify(c_, 2)):
            r_ = tr(c)
            if r_:
                cases.append(r_)
    from .common import decoy_layer
    cases += decoy_layer([c for c in cases if c is not None])
    seen, out = set(), []
    for c in cases:
        if c.key not in seen:
            seen.add(c.key)
            out.append(c)
    return out


RULE = ('wide elements (4-5 fields) with at most two deviating fields; structs: {unit, (), {}, tuple, named} with F fields x name {default, renamed, disabled} x named_field {default, flipped} x '
        'per field {shown, renamed, ignored (type whose Debug panics), method, renamed+method in both parameter orders, ignored+method (still ignored)}; enums: focus '
        'variant placed first/last next to a plain sibling x enum name {off, on, renamed} x variant name {default, renamed, disabled} '
        'x named_field x the same field alphabet; requests the documentation refuses (nameless empty shapes, rename on a positional '
        'field) belong to C13 and are skipped; generic struct (lifetime, bounded type and const parameters, where-clause) around the '
        'method wrapper; attribute contexts; plain derives against #[derive(Debug)] on a twin.  Oracle: a hand-rendered fmt using '
        'debug_struct / debug_tuple / debug_map + raw keys / write_str for the effective shape, byte equality of {:?} and {:#?}; field '
        'values are a scalar, a nested struct and a Vec so that pretty-printing indentation is exercised')


def check(v, tier):
    from .common import run_behavioural
    cases = generate(tier)
    run_behavioural(v, cases, 'C06', nontrivial_min=2, min_nontrivial_ratio=0.9)
    return v.finish(RULE, {'bounds': {'fields': 2 if tier == 'quick' else 3, 'tier': tier}})
