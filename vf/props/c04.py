"""C04 — enum variants order by declared discriminant, never by memory layout."""
import itertools

from ..core import Case

PAYLOADS = {
    'bool': ('bool', ['false', 'true']),
    'u8': ('u8', ['0', '1', '100', '200', '255']),
    'char': ('char', ["'\\0'", "'a'", "'\\u{10FFFF}'"]),
    'ref': ("&'static u8", ['&S1', '&S200']),
    'nz': ('std::num::NonZeroU8', ['nz(1)', 'nz(255)']),
    'onz': ('Option<std::num::NonZeroU8>', ['None', 'Some(nz(1))', 'Some(nz(255))']),
    'unit': ('()', ['()']),
    'u16': ('u16', ['0', '255', '256', '65535']),
    'u32': ('u32', ['0', '4294967295']),
    'inner': ('Inner', ['Inner::A', 'Inner::B', 'Inner::C']),
    'obool': ('Option<bool>', ['None', 'Some(false)', 'Some(true)']),
    'i8': ('i8', ['-128', '-1', '0', '127']),
    'tup': ('(u8, bool)', ['(0, false)', '(0, true)', '(1, false)']),
    'arr': ('[u8; 2]', ['[0, 0]', '[0, 1]', '[1, 0]']),
    'tup1': ('(u8,)', ['(0,)', '(200,)']),
    'nan': ('N', ['N(0)', 'N(9)', 'N(1)']),
    'f32': ('f32', ['0.0', 'f32::NAN', '-0.0', '1.5']),
    'otup': ('Option<(bool, u8)>', ['None', 'Some((false, 9))', 'Some((true, 0))']),
}
RANGE = {'u8': (0, 255), 'i8': (-128, 127), 'u16': (0, 65535), 'i16': (-32768, 32767), 'u32': (0, 2**32 - 1), 'i32': (-2**31, 2**31 - 1),
         'u64': (0, 2**64 - 1), 'i64': (-2**63, 2**63 - 1), 'usize': (0, 2**64 - 1), 'isize': (-2**63, 2**63 - 1)}
CFG = {'PO': ('PartialOrd', 'PartialEq'), 'O': ('Ord', 'PartialEq, Eq'), 'OP': ('PartialOrd, Ord', 'PartialEq, Eq'), 'PO2': ('Ord, PartialOrd', 'PartialEq, Eq')}


def int_of(repr):
    for p in (repr or '').replace(' ', '').split(','):
        if p in RANGE:
            return p
    return None


def disc_patterns(v, repr, all_unit):
    # (patterns are written for v <= 3 and extended by implicit continuation for larger v)
    """explicit discriminant lists (None = implicit) legal for this enum"""
    it = int_of(repr)
    out = [[None] * v]
    if not all_unit and it is None:
        return out     # explicit discriminants on data-carrying variants need #[repr(inttype)]
    lo, hi = RANGE[it] if it else RANGE['isize']
    cands = []
    if v >= 1:
        cands.append([hi - v + 1] + [None] * (v - 1))          # up to the maximum through implicit continuation
        cands.append([hi - i for i in range(v)])               # decreasing from the maximum
        if lo < 0:
            cands.append([lo] + [None] * (v - 1))
            cands.append([-1 - i for i in range(v)])           # negative, decreasing
            cands.append([lo + (v - 1 - i) for i in range(v)])
        cands.append([10 * (v - i) for i in range(v)])         # plain decreasing
        cands.append(([1] + [hi - i for i in range(v - 1)]) if v > 1 else [hi])      # a small value next to the largest ones
        cands.append(([hi] + [2 + i for i in range(v - 1)]) if v > 1 else [lo])
        cands.append([3 + 4 * i for i in range(v)])            # increasing with gaps
    if v >= 2:
        cands.append([5, None] + [1] * (v - 2))                # gap, implicit continuation, then smaller
        cands.append([None] * (v - 1) + [100])
        if hi > 127:
            cands.append([128 + i for i in range(v)][::-1])     # values that are negative when read as i8
        if hi > 255:
            cands.append([256, 255, 1][:v])
    if v >= 3:
        cands.append([7, None, 2])
        cands.append([None, 200 if hi >= 200 else 100, None])
    seen = set()
    for c in cands:
        c = (list(c) + [None] * v)[:v]
        vals = resolve(c)
        if len(set(vals)) != len(vals) or min(vals) < lo or max(vals) > hi:
            continue
        t = tuple(c)
        if t not in seen:
            seen.add(t)
            out.append(c)
    return out


def resolve(discs):
    vals, cur = [], 0
    for d in discs:
        if d is not None:
            cur = d
        vals.append(cur)
        cur += 1
    return vals


def build(variants, repr, discs, cfg, laws=True, methods=False):
    """variants: list of (style, [payload codes]) with style u/t/n"""
    traits, derives = CFG[cfg]
    if repr and 'C' in repr.replace(' ', '').split(',') and int_of(repr) and all(st == 'u' for st, _ in variants):
        return None     # rustc refuses #[repr(C, inttype)] on a fieldless enum (deny-by-default lint conflicting_repr_hints)
    vals = resolve(discs)
    lines = ['#[derive(Educe, Debug, Clone, %s)]\n' % derives]
    if repr:
        lines.append('#[repr(%s)]\n' % repr)
    lines.append('#[educe(%s)]\n' % traits)
    lines.append('pub enum Ty {\n')
    # every payload field compared through a custom method that answers like the type's own comparison (the model does not change)
    fa = ''
    if methods:
        fa = '#[educe(PartialOrd(method(pcmp_std)))] ' if cfg == 'PO' else ('#[educe(Ord(method(cmp_std)))] ' if cfg in ('O', 'OP') else '#[educe(PartialOrd(method(cmp_std)))] ')
    for vi, (st, ps) in enumerate(variants):
        d = '' if discs[vi] is None else ' = %d' % discs[vi]
        if st == 'u':
            lines.append('    V%d%s,\n' % (vi, d))
        elif st == 't':
            lines.append('    V%d(%s)%s,\n' % (vi, ', '.join(fa + PAYLOADS[p][0] for p in ps), d))
        else:
            lines.append('    V%d { %s }%s,\n' % (vi, ', '.join('%sf%d: %s' % (fa, i, PAYLOADS[p][0]) for i, p in enumerate(ps)), d))
    lines.append('}\n')
    src = ''.join(lines)
    if cfg == 'O':
        src += 'impl PartialOrd for Ty {\n    fn partial_cmp(&self, o: &Self) -> Option<Ordering> {\n        Some(Ord::cmp(self, o))\n    }\n}\n'
    src += 'use std::cmp::Ordering;\n'
    values = []
    for vi, (st, ps) in enumerate(variants):
        if st == 'u':
            values.append('Ty::V%d' % vi)
            continue
        for combo in itertools.product(*[PAYLOADS[p][1] for p in ps]):
            if st == 't':
                values.append('Ty::V%d(%s)' % (vi, ', '.join(combo)))
            else:
                values.append('Ty::V%d { %s }' % (vi, ', '.join('f%d: %s' % (i, e) for i, e in enumerate(combo))))
    src += 'fn values() -> Vec<Ty> {\n    vec![\n%s    ]\n}\n' % ''.join('        %s,\n' % v for v in values)
    src += 'fn disc(x: &Ty) -> i128 {\n    match x {\n%s    }\n}\n' % ''.join('        Ty::V%d { .. } => %d,\n' % (vi, vals[vi]) for vi in range(len(variants)))
    arms = []
    for vi, (st, ps) in enumerate(variants):
        if st == 'u':
            arms.append('            (Ty::V%d, Ty::V%d) => Some(Ordering::Equal),\n' % (vi, vi))
        elif st == 't':
            arms.append('            (Ty::V%d(%s), Ty::V%d(%s)) => lex(&[%s]),\n' % (
                vi, ', '.join('a%d' % i for i in range(len(ps))), vi, ', '.join('b%d' % i for i in range(len(ps))),
                ', '.join('a%d.partial_cmp(b%d)' % (i, i) for i in range(len(ps)))))
        else:
            arms.append('            (Ty::V%d { %s }, Ty::V%d { %s }) => lex(&[%s]),\n' % (
                vi, ', '.join('f%d: a%d' % (i, i) for i in range(len(ps))), vi, ', '.join('f%d: b%d' % (i, i) for i in range(len(ps))),
                ', '.join('a%d.partial_cmp(b%d)' % (i, i) for i in range(len(ps)))))
    if len(variants) > 1:
        arms.append('            _ => unreachable!(),\n')
    if variants:
        src += ('fn model(a: &Ty, b: &Ty) -> Option<Ordering> {\n    match disc(a).cmp(&disc(b)) {\n        Ordering::Equal => match (a, b) {\n%s        },\n'
                '        o => Some(o),\n    }\n}\n') % ''.join(arms)
    has_ord = cfg != 'PO'
    src += 'pub fn check(r: &mut Rep) {\n    let vs = values();\n'
    src += '    ord_pairs(r, &vs, &|a, b| a.partial_cmp(b), %s, &model, &|a, b| (a < b, a <= b, a > b, a >= b));\n' % (
        'Some(&|a: &Ty, b: &Ty| a.cmp(b))' if has_ord else 'None')
    src += '    neighbour_pairs(r, &vs, &|a, b| a.partial_cmp(b), &model);\n'
    if has_ord and laws:
        src += '    ord_laws(r, &vs, &|a, b| a.cmp(b));\n'
    src += '}\n'
    vk = ','.join(st + '(' + '+'.join(ps) + ')' if st != 'u' else 'u' for st, ps in variants)
    dk = ','.join('_' if d is None else str(d) for d in discs)
    if len(variants) > 12:      # run-length form of the long lists
        from ..core import shash
        parts = vk.split(',')
        vk = 'x%d:%s' % (len(parts), ','.join('%s*%d' % (g, len(list(it))) for g, it in itertools.groupby(parts)))
        dk = '%s..%s#%x' % ('_' if discs[0] is None else discs[0], '_' if discs[-1] is None else discs[-1], shash(dk) & 0xffff)
    key = 'C04|%s|%s|repr(%s)|%s%s' % (cfg, vk, repr or '', dk, '|methods' if methods else '')
    depth = (1 if repr else 0) + sum(1 for d in discs if d is not None) + sum(len(ps) for _, ps in variants)
    return Case(key, src, {'cfg': cfg, 'variants': vk, 'repr': repr, 'discriminants': discs if len(discs) <= 12 else dk, 'resolved': vals if len(vals) <= 12 else [vals[0], vals[-1]], 'values': len(values)},
                expect='accept', run=True, depth=depth)


def generate(tier):
    cases = []
    cfgs = list(CFG)
    k = 0
    reprs_unit = [None, 'C', 'u8', 'i8', 'u16', 'i16', 'u32', 'i32', 'u64', 'i64', 'usize', 'isize', 'C, u8', 'align(2)', 'align(4), i16']
    # A: all-unit enums
    for v in (1, 2, 3):
        for repr in reprs_unit:
            for discs in disc_patterns(v, repr, True):
                k += 1
                for cfg in (cfgs if tier != 'quick' else [cfgs[k % 4], cfgs[(k + 1) % 4]]):
                    cases.append(build([('u', [])] * v, repr, discs, cfg))
    # B: single-variant enums with a payload
    plist = [p_ for p_ in PAYLOADS if p_ not in ('nan', 'f32')]
    for p in plist:
        for var in (('t', [p]), ('n', [p]), ('t', [p, 'u8']), ('t', ['bool', p])):
            for repr in (None, 'C', 'u8', 'transparent', 'i64', 'align(8)'):
                if repr == 'transparent' and (len(var[1]) != 1):
                    continue
                for discs in disc_patterns(1, repr, False)[:3]:
                    k += 1
                    for cfg in (cfgs if tier != 'quick' else [cfgs[k % 4]]):
                        cases.append(build([var], repr, discs, cfg))
    # C: two variants over {unit, tuple(P), named{P}}
    sub = ['bool', 'char', 'ref', 'nz', 'onz', 'u8', 'unit', 'tup'] if tier == 'quick' else plist
    opts = [('u', [])] + [('t', [p]) for p in sub] + [('n', [p]) for p in sub]
    for v0, v1 in itertools.product(opts, repeat=2):
        for repr in (None, 'u8', 'i8', 'C', 'C, u8', 'i16, C', 'u8, align(8)') if tier == 'quick' else (None, 'u8', 'i8', 'C', 'u16', 'isize', 'C, u8', 'align(2)', 'i16, C', 'u8, align(8)', 'C, u8,'):
            pats = disc_patterns(2, repr, v0[0] == 'u' and v1[0] == 'u')
            pick = pats if tier != 'quick' else [pats[0], pats[(k % (len(pats) - 1)) + 1]] if len(pats) > 1 else pats
            for discs in pick:
                k += 1
                cases.append(build([v0, v1], repr, discs, cfgs[k % 4]))
    # D: three variants (thorough: full over a smaller payload list; quick: a diagonal)
    sub3 = ['bool', 'ref', 'onz', 'u8']
    opts3 = [('u', [])] + [('t', [p]) for p in sub3] + [('n', [p]) for p in sub3[:2]] + [('t', ['u8', 'bool'])]
    for combo in itertools.product(opts3, repeat=3):
        k += 1
        if tier == 'quick' and k % 7:
            continue
        for repr in ((None, 'u8') if tier == 'quick' else (None, 'u8', 'i16', 'C')):
            pats = disc_patterns(3, repr, all(c[0] == 'u' for c in combo))
            for discs in (pats if tier != 'quick' else pats[:1] + pats[-1:]):
                k += 1
                cases.append(build(list(combo), repr, discs, cfgs[k % 4]))
    # E: four and five variants
    for v in (4, 5):
        for repr in (None, 'u8', 'i8', 'isize', 'C'):
            for discs in disc_patterns(v, repr, True):
                k += 1
                cases.append(build([('u', [])] * v, repr, discs, cfgs[k % 4]))
        mixed = [('u', []), ('t', ['bool']), ('n', ['u8']), ('t', ['ref']), ('u', [])][:v]
        for rot in range(v):
            vs = mixed[rot:] + mixed[:rot]
            for repr in (None, 'u8', 'i16', 'C, u8', 'i8, C', 'u16, align(4)', 'C, i32,'):
                for discs in disc_patterns(v, repr, False)[:4]:
                    k += 1
                    cases.append(build(vs, repr, discs, cfgs[k % 4]))
    # F: twelve variants (two-digit variant indices), implicit / decreasing / rotated discriminants, unit and mixed payloads
    for repr in (None, 'u8', 'i8'):
        for dk, discs in (('implicit', [None] * 12), ('decreasing', [20 - i for i in range(12)]), ('rotated', [((i + 7) % 12) for i in range(12)]),
                          ('tail', [None] * 10 + [0 if repr != 'i8' else -5, None] if False else [5] + [None] * 9 + [0, None])):
            if len(set(resolve(discs))) != 12:
                continue
            k += 1
            cases.append(build([('u', [])] * 12, repr, discs, cfgs[k % 4]))
            if repr:
                vs = [('u', []), ('t', ['bool']), ('n', ['u8'])] * 4
                cases.append(build(vs, repr, discs, cfgs[(k + 1) % 4]))
        if repr is None:
            vs = [('u', []), ('t', ['bool']), ('n', ['u8'])] * 4
            cases.append(build(vs, None, [None] * 12, 'OP'))
    # every payload field behind a custom method (no field is compared the built-in way)
    for vs in ([('t', ['u8'])], [('u', []), ('t', ['u8'])], [('n', ['u8', 'bool']), ('u', [])], [('t', ['i8']), ('n', ['u8']), ('t', ['bool', 'u8'])], [('t', ['u8']), ('t', ['u8'])]):
        for repr in (None, 'i16'):
            for discs in disc_patterns(len(vs), repr, False)[:3]:
                for cfg in cfgs:
                    cases.append(build(vs, repr, discs, cfg, methods=True))
    # G: more variants than a byte can rank (256, 257, 300): implicit, decreasing and rotated discriminants; payloads beyond position 255
    for v in (256, 257, 300):
        for repr, dk in ((None, 'implicit'), ('u16', 'decreasing'), ('i16', 'rotated'), ('u16', 'payload')):
            if v != 300 and dk not in ('implicit', 'decreasing'):
                continue
            discs = {'implicit': [None] * v, 'decreasing': [1000 - i for i in range(v)], 'rotated': [((i + 77) % v) - 100 for i in range(v)],
                     'payload': [None] * v}[dk]
            vs = [('u', [])] * v
            if dk == 'payload':
                vs = [('u', [])] * (v - 6) + [('t', ['bool']), ('u', []), ('n', ['u8']), ('u', []), ('t', ['unit']), ('u', [])]
            k += 1
            cases.append(build(vs, repr, discs, cfgs[k % 4], laws=False))
    # struct-like variants with two and three fields of one type (a mix-up of bindings type-checks), built-in and through methods
    for vs in ([('n', ['u8', 'u8'])], [('u', []), ('n', ['u8', 'u8', 'u8'])], [('n', ['bool', 'bool']), ('t', ['u8', 'u8'])], [('n', ['i8', 'i8']), ('u', []), ('n', ['u8', 'u8'])]):
        for cfg in cfgs:
            for methods in (False, True):
                cases.append(build(vs, None, [None] * len(vs), cfg, methods=methods))
    # payloads that are incomparable with themselves (a NaN-like scalar, f32): PartialOrd only; every value is also compared with itself through the same reference,
    # so an answer taken from the operands' identity instead of their fields shows
    for nanp in ('nan', 'f32'):
        for vs in ([('t', [nanp])], [('n', ['u8', nanp]), ('u', [])], [('u', []), ('t', [nanp, 'u8']), ('n', [nanp])], [('t', ['unit', nanp])]):
            for methods in (False,):
                cases.append(build(vs, None, [None] * len(vs), 'PO', laws=False, methods=methods))
    # field names that differ by the prefixes the templates use for their bindings (x, _x, __x, ...), template locals as field names, raw identifiers
    from .common import underscorify, rawify, localsify
    named = [x for x in cases if x is not None and 'n(' in x.key and len(x.body) < 20000]
    for c in named[::7] + [x for x in named if '+' in x.key or 'n(u8,u8' in x.key or 'n(bool,bool' in x.key or 'n(i8,i8' in x.key]:
        for tr in (underscorify, rawify, lambda c_: localsify(c_, 0), lambda c_: localsify(c_, 1), lambda c_: localsify(c_, 2)):
            r_ = tr(c)
            if r_:
                cases.append(r_)
    from .common import decoy_layer
    cases += decoy_layer([c for c in cases if c is not None and len(c.body) < 20000], 80)
    seen, out = set(), []
    for c in cases:
        if c is not None and c.key not in seen:
            seen.add(c.key)
            out.append(c)
    return out


RULE = ('enums with 256, 257 and 300 variants (implicit, decreasing, rotated discriminants, payloads in the last variants; all pairs, no triples); twelve-variant enums (implicit, decreasing, rotated discriminants); four- and five-variant enums (all-unit x repr x discriminant patterns; mixed payloads in every rotation); enums with V<=3 variants over variant shapes {unit, tuple(P), named{P}, tuple(P,P)} x payload P in {bool, u8, i8, char, '
        '&\'static u8, NonZeroU8, Option<NonZeroU8>, Option<bool>, (), u16, u32, nested enum} x #[repr] in {none, C, u8..i64, usize, isize, '
        '"C, u8", align(N), transparent} x discriminant patterns {implicit; up to the type maximum by implicit continuation; decreasing; '
        'negative; minimum; gaps with implicit continuation; values that read as negative i8} (only those rustc accepts) x {PartialOrd; Ord + '
        'hand PartialOrd; both}; per enum all ordered pairs of values (payload domains incl. boundary values) against (declared '
        'discriminant, fields) computed by the generator, repeated with both operands embedded between 16-byte neighbours filled with '
        '00/55/FF and in exact-size heap boxes; order laws on all triples; non-trivial = Less, Equal and Greater all observed')


def check(v, tier):
    from .common import run_behavioural
    cases = generate(tier)
    run_behavioural(v, cases, 'C04', nontrivial_min=3, min_nontrivial_ratio=0.5)
    return v.finish(RULE, {'bounds': {'variants': 3, 'tier': tier}})
