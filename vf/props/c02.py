"""C02 — PartialEq is exactly field-wise equality over the compared fields."""
import itertools

from .. import shapes as S
from ..core import Case
from .common import place, CTX

IGN = ['{T}(ignore)', '{T} = false', '{T}(ignore = true)', '{T}(ignore(true))']
NOTIGN = [None, '{T} = true', '{T}(ignore = false)']
CFGS = {'P': ('PartialEq', 'PartialEq'), 'PE': ('PartialEq, Eq', 'PartialEq'), 'EP': ('Eq, PartialEq', 'Eq')}


def field_meta(ch, carrier, salt):
    """the field's own meta text (None = no attribute)"""
    if ch == 'c':
        s = NOTIGN[salt % len(NOTIGN)]
        return None if s is None else s.format(T=carrier)
    if ch == 'i':
        return IGN[salt % len(IGN)].format(T=carrier)
    if ch == 'm':
        return ['%s(method(eq_asym))', '%s(ignore = false, method(eq_asym))', '%s(method(eq_asym), ignore(false))'][salt % 3] % carrier
    if ch == 'l':
        return '%s(method = "eq_par")' % carrier if salt % 2 else '%s(method(eq_par))' % carrier
    if ch == 'x':
        return ['%s(ignore, method(eq_poison))', '%s(method(eq_poison), ignore)', '%s(method = "eq_poison", ignore = true)'][salt % 3] % carrier
    raise ValueError(ch)


def field_term(ch, a, b):
    if ch == 'c':
        return '%s.0 == %s.0' % (a, b)
    if ch == 'm':
        return 'eq_asym(%s, %s)' % (a, b)
    if ch == 'l':
        return 'eq_par(%s, %s)' % (a, b)
    return None


def build(shape, assign, cfg, generic=False, ctx='alone', small_domain=False, probe=None, bound=None, repr=None):
    """assign[vi] = string over c/i/m/l, one char per field"""
    traits, carrier = CFGS[cfg]
    if bound:
        traits = traits.replace('PartialEq', 'PartialEq(%s)' % bound, 1)
    tys, fattrs, doms = [], [], []
    salt = 0
    for vi, f in enumerate(shape.variants):
        t, a, d = [], [], []
        for fi in range(f.n):
            ch = assign[vi][fi]
            salt += 1
            t.append('I' if ch in 'ix' else ('G' if generic and ch == 'c' else 'V'))
            a.append(place(field_meta(ch, carrier, salt + vi), 'Hash(ignore)', ctx))
            if probe is not None and fi not in probe and ch not in 'ix':
                d.append(['V(1)'])
            else:
                d.append(['I(0)', 'I(1)'] if ch in 'ix' else (['V(0)', 'V(1)'] if small_domain else ['V(0)', 'V(1)', 'V(2)']))
        tys.append(t)
        fattrs.append(a)
        doms.append(d)
    gen = '<G>' if generic else ''
    tyname = 'Ty<V>' if generic else 'Ty'
    if ctx != 'alone':
        traits = ('Hash, ' + traits) if ctx.endswith('before') else (traits + ', Hash')
    src = S.render_type(shape, ['#[educe(%s)]' % traits], tys, fattrs, generics=gen, derives='Educe, Debug', pre_attrs=(['#[repr(%s)]' % repr] if repr else []))
    vals = S.all_values(shape, doms)
    src += 'fn values() -> Vec<%s> {\n    vec![\n%s    ]\n}\n' % (tyname, ''.join('        %s,\n' % v for v in vals))
    arms = []
    for vi, f in enumerate(shape.variants):
        ab = ['_' if assign[vi][i] in 'ix' else 'a%d' % i for i in range(f.n)]
        bb = ['_' if assign[vi][i] in 'ix' else 'b%d' % i for i in range(f.n)]
        terms = [field_term(assign[vi][i], 'a%d' % i, 'b%d' % i) for i in range(f.n)]
        terms = [t for t in terms if t]
        arms.append('        (%s, %s) => %s,\n' % (S.pattern(shape, vi, ab), S.pattern(shape, vi, bb),
                                                 ' && '.join(terms) if terms else 'true'))
    if shape.kind == 'enum' and len(shape.variants) > 1:
        arms.append('        _ => false,\n')
    src += 'fn model(a: &%s, b: &%s) -> bool {\n    match (a, b) {\n%s    }\n}\n' % (tyname, tyname, ''.join(arms))
    lawful = not any('m' in a for a in assign)
    src += 'pub fn check(r: &mut Rep) {\n    let vs = values();\n'
    src += '    eq_pairs(r, &vs, &|a, b| a == b, &|a, b| a != b, &model);\n'
    if lawful:
        src += '    eq_laws(r, &vs, &|a, b| a == b);\n'
    src += '}\n'
    depth = sum(1 for a in assign for ch in a if ch != 'c') + (0 if cfg == 'P' else 1) + (1 if generic else 0) + (0 if ctx == 'alone' else 1)
    key = 'C02|%s|%s|%s%s' % (cfg, shape.code(), ','.join(assign), ('|G' if generic else '') + ('' if ctx == 'alone' else '|' + ctx) + ('|' + bound if bound else '') + ('|repr(%s)' % repr if repr else ''))
    spec = {'cfg': cfg, 'shape': shape.code(), 'assign': list(assign), 'generic': generic, 'ctx': ctx, 'values': len(vals)}
    return Case(key, src, spec, expect='accept', run=True, depth=depth)


def assignments_k(shape, alphabet, k):
    """assignments with at most k positions deviating from alphabet[0] (breadth-first by number of deviations)"""
    pos = shape.positions()
    base = [[alphabet[0]] * f.n for f in shape.variants]
    yield tuple(''.join(b) for b in base)
    for r in range(1, k + 1):
        for where in itertools.combinations(pos, r):
            for syms in itertools.product(alphabet[1:], repeat=r):
                a = [list(b) for b in base]
                for (vi, fi), sy in zip(where, syms):
                    a[vi][fi] = sy
                yield tuple(''.join(b) for b in a)


VERYWIDE = [S.Shape('struct', [S.Fields('t', 12)]), S.Shape('struct', [S.Fields('n', 12)]), S.Shape('enum', [S.Fields('u'), S.Fields('t', 12), S.Fields('n', 11)])]
PROBE = (0, 1, 9, 10, 11)


def verywide_assignments(shape, alphabet):
    """12-field elements: the plain assignment and every single deviation at positions 0, 1, 9, 10, 11 (index arithmetic beyond one digit)"""
    base = [[alphabet[0]] * f.n for f in shape.variants]
    yield tuple(''.join(b) for b in base)
    for vi, f in enumerate(shape.variants):
        for fi in PROBE:
            if fi < f.n:
                for sy in alphabet[1:]:
                    a = [list(b) for b in base]
                    a[vi][fi] = sy
                    yield tuple(''.join(b) for b in a)


WIDE = [S.Shape('struct', [S.Fields('n', 5)]), S.Shape('struct', [S.Fields('t', 6)]),
        S.Shape('enum', [S.Fields('t', 1), S.Fields('u'), S.Fields('n', 5), S.Fields('t', 4), S.Fields('n', 1)]),
        S.Shape('enum', [S.Fields('u'), S.Fields('u'), S.Fields('t', 2), S.Fields('u'), S.Fields('n', 2), S.Fields('t', 1)])]


def assignments(shape, alphabet):
    per = [[''.join(p) for p in itertools.product(alphabet, repeat=f.n)] for f in shape.variants]
    return itertools.product(*per)


def generate(tier):
    cases = []
    if tier == 'quick':
        shapes = S.struct_shapes(3, with_empty=True) + S.enum_shapes(2, 2)
        alph = 'ciml'
    else:
        shapes = S.struct_shapes(4, with_empty=True) + S.enum_shapes(2, 3) + S.enum_shapes(3, 2, vmin=3)
        alph = 'ciml'
    for sh in shapes:
        big = sum(f.n for f in sh.variants) > 4
        nf = sum(f.n for f in sh.variants)
        for assign in assignments(sh, 'cim' if big else (alph + 'x' if nf <= 2 else alph)):
            for cfg in CFGS:
                cases.append(build(sh, assign, cfg))
        # one generic instantiation per shape with the plain assignment rotated
    # wide shapes (5-6 fields, 5-6 variants), breadth-first by deviations from the plain derive (k <= 2; thorough 3)
    for sh in WIDE:
        for assign in assignments_k(sh, 'cimx', 2 if tier == 'quick' else 3):
            cases.append(build(sh, assign, 'PE' if len(assign) % 2 else 'P', small_domain=True))
    for sh in VERYWIDE:
        for assign in verywide_assignments(sh, 'cim'):
            cases.append(build(sh, assign, 'P', small_domain=True, probe=PROBE))
    # explicit bound modes and #[repr] attributes (packed structs must not be compared through references that point into the wrong value; no mode may change the result)
    for sh in [S.Shape('struct', [S.Fields('n', 2)]), S.Shape('struct', [S.Fields('t', 3)]), S.Shape('enum', [S.Fields('t', 2), S.Fields('n', 2)]), S.Shape('enum', [S.Fields('t', 4), S.Fields('n', 3), S.Fields('u')])]:
        for assign in assignments_k(sh, 'cim', 1 if len(sh.positions()) <= 4 else 2):
            for bound in ('bound(*)', 'bound = false', 'bound(u8: Copy)'):
                cases.append(build(sh, assign, 'P', bound=bound, small_domain=True))
            for repr in (('C', 'packed', 'C, packed(2)', 'align(8)', 'packed(1)') if sh.kind == 'struct' else ('C', 'u8', 'C, i16', 'align(4)')):
                cases.append(build(sh, assign, 'PE' if len(repr) % 2 else 'P', repr=repr, small_domain=True))
    # two named variants that use the same field names at different positions (V0 {f0, f1}, V1 {f1, f0})
    for sh in [S.Shape('enum', [S.Fields('n', 2), S.Fields('n', 2)]), S.Shape('enum', [S.Fields('t', 1), S.Fields('n', 2)]), S.Shape('enum', [S.Fields('n', 1), S.Fields('u'), S.Fields('n', 3)])]:
        for assign in assignments(sh, 'cim'):
            for cfg in ('P', 'EP'):
                with S.naming('rot'):
                    c = build(sh, assign, cfg)
                c.key += '|rot'
                cases.append(c)
    from .common import zoo_cases
    from .common import unsized_cases
    cases += unsized_cases('C02')
    cases += zoo_cases('C02', 'PartialEq', 'Debug, Clone', 'Debug, Clone, PartialEq',
                       '    for (i, (a, ta)) in vs.iter().enumerate() {\n        for (j, (b, tb)) in vs.iter().enumerate() {\n'
                       '            r.ck((a == b) == (ta == tb), (ta == tb) as u64, &|| format!("values #{} and #{}: == gives {}, #[derive(PartialEq)] gives {}", i, j, a == b, ta == tb));\n'
                       '            r.ck((a != b) == (ta != tb), 2, &|| format!("values #{} and #{}: != gives {}", i, j, a != b));\n        }\n    }\n')
    from .common import ZOO_FLOAT
    cases += zoo_cases('C02|float', 'PartialEq', 'Debug, Clone', 'Debug, Clone, PartialEq',
                       '    for (i, (a, ta)) in vs.iter().enumerate() {\n        for (j, (b, tb)) in vs.iter().enumerate() {\n'
                       '            r.ck((a == b) == (ta == tb), (ta == tb) as u64, &|| format!("values #{} and #{}: == gives {}, #[derive(PartialEq)] gives {}", i, j, a == b, ta == tb));\n'
                       '            r.ck((a != b) == (ta != tb), 2, &|| format!("values #{} and #{}: != gives {}", i, j, a != b));\n        }\n    }\n', zoo=ZOO_FLOAT)
    cases += zoo_cases('C02|float-eq', 'PartialEq, Eq', 'Debug, Clone', 'Debug, Clone, PartialEq',
                       '    for (i, (a, ta)) in vs.iter().enumerate() {\n        for (j, (b, tb)) in vs.iter().enumerate() {\n'
                       '            r.ck((a == b) == (ta == tb), (ta == tb) as u64, &|| format!("values #{} and #{}: == gives {}, #[derive(PartialEq)] gives {}", i, j, a == b, ta == tb));\n'
                       '            r.ck((a != b) == (ta != tb), 2, &|| format!("values #{} and #{}: != gives {}", i, j, a != b));\n        }\n    }\n', zoo=ZOO_FLOAT)
    # the same type forms with an attribute on the exotic field itself (a method that forwards to the type's own ==) and on its sibling (ignored; the twin's sibling is a unit struct)
    cases += zoo_cases('C02|zm', 'PartialEq', 'Debug, Clone', 'Debug, Clone, PartialEq',
                       '    for (i, (a, ta)) in vs.iter().enumerate() {\n        for (j, (b, tb)) in vs.iter().enumerate() {\n'
                       '            r.ck((a == b) == (ta == tb), (ta == tb) as u64, &|| format!("values #{} and #{}: == gives {}, #[derive(PartialEq)] gives {}", i, j, a == b, ta == tb));\n'
                       '            r.ck((a != b) == (ta != tb), 2, &|| format!("values #{} and #{}: != gives {}", i, j, a != b));\n        }\n    }\n', z_attr='PartialEq(method(zoo_m_eq))')
    cases += zoo_cases('C02|zi', 'PartialEq', 'Debug, Clone', 'Debug, Clone, PartialEq',
                       '    for (i, (a, ta)) in vs.iter().enumerate() {\n        for (j, (b, tb)) in vs.iter().enumerate() {\n'
                       '            r.ck((a == b) == (ta == tb), (ta == tb) as u64, &|| format!("values #{} and #{}: == gives {}, #[derive(PartialEq)] gives {}", i, j, a == b, ta == tb));\n'
                       '            r.ck((a != b) == (ta != tb), 2, &|| format!("values #{} and #{}: != gives {}", i, j, a != b));\n        }\n    }\n', ign_attr='PartialEq(ignore)')
    from .common import rawify
    for c in [x for x in cases if x.key.startswith('C02|P|s:n2|') or x.key.startswith('C02|EP|e:n2,n1|') or x.key.startswith('C02|PE|s:n3|')]:
        r_ = rawify(c)
        if r_:
            cases.append(r_)
    from .common import underscorify
    for c in [x for x in cases if (x.key.startswith('C02|P|s:n2|') or x.key.startswith('C02|EP|e:n2,n1|') or x.key.startswith('C02|PE|s:n3|') or x.key.startswith('C02|P|e:n2,n2|')
                                   or x.key.startswith('C02|PE|e:n2|')) and '|raw' not in x.key]:
        r_ = underscorify(c)
        if r_:
            cases.append(r_)
        from .common import localsify
        for sch in (0, 1, 2):
            r_ = localsify(c, sch)
            if r_:
                cases.append(r_)
    for sh in S.struct_shapes(2) + S.enum_shapes(2, 2):
        if not sh.positions():
            continue
        for assign in assignments(sh, 'cm'):
            if any('c' in a for a in assign):
                cases.append(build(sh, assign, 'P', generic=True))
    for sh in S.struct_shapes(2) + S.enum_shapes(2, 2 if tier != 'quick' else 1) + [S.Shape('enum', [S.Fields('t', 2), S.Fields('n', 2)])]:
        if not sh.positions():
            continue
        for assign in assignments(sh, 'cim'):
            for ctx in CTX[1:]:
                for cfg in (('P', 'EP') if tier == 'quick' else CFGS):
                    cases.append(build(sh, assign, cfg, ctx=ctx))
    from .common import decoy_layer
    cases += decoy_layer([c for c in cases if c is not None])
    seen, out = set(), []
    for c in cases:
        if c.key not in seen:
            seen.add(c.key)
            out.append(c)
    return out


def check(v, tier):
    from .common import run_behavioural
    cases = generate(tier)
    run_behavioural(v, cases, 'C02', nontrivial_min=2)
    return v.finish(RULE, {'bounds': BOUNDS[tier]})


RULE = ('wide shapes (5-6 fields, 5-6 variants) with at most 2 (thorough 3) positions deviating from the plain derive; every struct/enum shape within the bound x every assignment of {compared, ignored (type whose == panics), ignored + method (both parameters: still ignored), '
        'method (asymmetric), method (lawful)} per field x attribute carrier {PartialEq alone, PartialEq(..) with Eq, '
        'Eq(..) with PartialEq} x attribute context (other trait\'s attribute before/after/same list); per program all '
        'ordered pairs of values over {0,1,2} (ignored fields {0,1}) against the field-wise model, != as negation, '
        'laws on all triples when every method is lawful; non-trivial = both true and false observed')
BOUNDS = {'quick': {'struct_fields': 3, 'enum_variants': 2, 'enum_fields': 2},
          'thorough': {'struct_fields': 4, 'enum_variants': 3, 'enum_fields': '3 (V<=2) / 2 (V=3)'}}
