"""C02 — PartialEq is exactly field-wise equality over the compared fields."""
import itertools

from .. import shapes as S
from ..core import Case

IGN = ['{T}(ignore)', '{T} = false', '{T}(ignore = true)', '{T}(ignore(true))']
NOTIGN = [None, '{T} = true', '{T}(ignore = false)']
CFGS = {'P': ('PartialEq', 'PartialEq'), 'PE': ('PartialEq, Eq', 'PartialEq'), 'EP': ('Eq, PartialEq', 'Eq')}


def field_attr(ch, carrier, salt):
    if ch == 'c':
        s = NOTIGN[salt % len(NOTIGN)]
        return [] if s is None else ['#[educe(%s)]' % s.format(T=carrier)]
    if ch == 'i':
        return ['#[educe(%s)]' % IGN[salt % len(IGN)].format(T=carrier)]
    if ch == 'm':
        return ['#[educe(%s(method(eq_asym)))]' % carrier]
    if ch == 'l':
        return ['#[educe(%s(method = "eq_par"))]' % carrier if salt % 2 else '#[educe(%s(method(eq_par)))]' % carrier]
    raise ValueError(ch)


def field_term(ch, a, b):
    if ch == 'c':
        return '%s.0 == %s.0' % (a, b)
    if ch == 'm':
        return 'eq_asym(%s, %s)' % (a, b)
    if ch == 'l':
        return 'eq_par(%s, %s)' % (a, b)
    return None


def build(shape, assign, cfg, generic=False):
    """assign[vi] = string over c/i/m/l, one char per field"""
    traits, carrier = CFGS[cfg]
    tys, fattrs, doms = [], [], []
    salt = 0
    for vi, f in enumerate(shape.variants):
        t, a, d = [], [], []
        for fi in range(f.n):
            ch = assign[vi][fi]
            salt += 1
            t.append('I' if ch == 'i' else ('G' if generic and ch == 'c' else 'V'))
            a.append(field_attr(ch, carrier, salt + vi))
            d.append(['I(0)', 'I(1)'] if ch == 'i' else ['V(0)', 'V(1)', 'V(2)'])
        tys.append(t)
        fattrs.append(a)
        doms.append(d)
    gen = '<G>' if generic else ''
    tyname = 'Ty<V>' if generic else 'Ty'
    src = S.render_type(shape, ['#[educe(%s)]' % traits], tys, fattrs, generics=gen, derives='Educe, Debug')
    vals = S.all_values(shape, doms)
    src += 'fn values() -> Vec<%s> {\n    vec![\n%s    ]\n}\n' % (tyname, ''.join('        %s,\n' % v for v in vals))
    arms = []
    for vi, f in enumerate(shape.variants):
        ab = ['_' if assign[vi][i] == 'i' else 'a%d' % i for i in range(f.n)]
        bb = ['_' if assign[vi][i] == 'i' else 'b%d' % i for i in range(f.n)]
        terms = [field_term(assign[vi][i], 'a%d' % i, 'b%d' % i) for i in range(f.n)]
        terms = [t for t in terms if t]
        arms.append('        (%s, %s) => %s,\n' % (S.pattern(shape, vi, ab), S.pattern(shape, vi, bb),
                                                 ' && '.join(terms) if terms else 'true'))
    if shape.kind == 'enum' and len(shape.variants) > 1:
        arms.append('        _ => false,\n')
    src += 'fn model(a: &%s, b: &%s) -> bool {\n    match (a, b) {\n%s    }\n}\n' % (tyname, tyname, ''.join(arms))
    lawful = not any('m' in a for a in assign)
    src += 'pub fn check(r: &mut Rep) {\n    let vs = values();\n'
    src += '    eq_pairs(r, &vs, &|a, b| a == b, &|a, b| a != b, &model);\n'
    if lawful:
        src += '    eq_laws(r, &vs, &|a, b| a == b);\n'
    src += '}\n'
    depth = sum(1 for a in assign for ch in a if ch != 'c') + (0 if cfg == 'P' else 1) + (1 if generic else 0)
    key = 'C02|%s|%s|%s%s' % (cfg, shape.code(), ','.join(assign), '|G' if generic else '')
    spec = {'cfg': cfg, 'shape': shape.code(), 'assign': list(assign), 'generic': generic, 'values': len(vals)}
    return Case(key, src, spec, expect='accept', run=True, depth=depth)


def assignments(shape, alphabet):
    per = [[''.join(p) for p in itertools.product(alphabet, repeat=f.n)] for f in shape.variants]
    return itertools.product(*per)


def generate(tier):
    cases = []
    if tier == 'quick':
        shapes = S.struct_shapes(3, with_empty=True) + S.enum_shapes(2, 2)
        alph = 'ciml'
    else:
        shapes = S.struct_shapes(4, with_empty=True) + S.enum_shapes(2, 3) + S.enum_shapes(3, 2, vmin=3)
        alph = 'ciml'
    for sh in shapes:
        big = sum(f.n for f in sh.variants) > 4
        for assign in assignments(sh, 'cim' if big else alph):
            for cfg in CFGS:
                cases.append(build(sh, assign, cfg))
        # one generic instantiation per shape with the plain assignment rotated
    for sh in S.struct_shapes(2) + S.enum_shapes(2, 2):
        if not sh.positions():
            continue
        for assign in assignments(sh, 'cm'):
            if any('c' in a for a in assign):
                cases.append(build(sh, assign, 'P', generic=True))
    return cases


def check(v, tier):
    from ..core import rt_run, guard
    cases = generate(tier)
    guard(len({c.key for c in cases}) == len(cases), 'duplicate keys')
    res = rt_run(cases, run=True, name='C02')
    v.add_states(cases)
    both = 0
    for r in res:
        if r.status != 'ok':
            v.cov['blocked'] += 1
            v.notes.setdefault('blocked_samples', [])
            if len(v.notes['blocked_samples']) < 5:
                v.notes['blocked_samples'].append({'key': r.case.key, 'status': r.status,
                                                   'diag': [d['msg'][:200] for d in r.errors()[:2]]})
            continue
        v.cov['traces_validated_against_impl'] += 1
        v.cov['evaluations'] += r.evals
        if r.outcomes >= 2:
            v.cov['distinct_nontrivial'] += 1
        if r.outcomes >= 4:
            both += 1
        if r.nfail:
            v.violation(r.case, '%d disagreements with the model; first: %s' % (r.nfail, ' ;; '.join(r.fails[:3])))
    for c in cases[:3] + cases[len(cases) // 2:len(cases) // 2 + 2]:
        v.sample({'key': c.key, 'program': c.body[:1500]})
    guard(v.cov['blocked'] * 10 <= len(cases), 'more than 10%% of the C02 programs do not compile (%d of %d): see C01' % (v.cov['blocked'], len(cases)))
    guard(both * 2 >= len(cases), 'too few programs showed both equal and unequal pairs')
    return v.finish('every struct/enum shape within the bound x every assignment of {compared, ignored(poisoned type), method(asymmetric), method(lawful)} per field x attribute carrier {PartialEq alone, PartialEq(..) with Eq, Eq(..) with PartialEq}; per program all ordered pairs of values over {0,1,2} (ignored fields {0,1}) against the field-wise model, != as negation, laws on all triples when every method is lawful; non-trivial = both true and false observed',
                    {'bounds': {'tier': tier}})
