"""C09 — Deref / DerefMut expose exactly the designated field."""
import itertools

from .. import shapes as S
from ..core import Case

# field type modes of the designated field: v = V, r = &'a V, rr = &'a &'a V (Deref only), m = &'a mut V


def variant_options(fl, with_mut):
    """yield (i, j, mark_i, mark_j): designated positions and whether the marker is written"""
    n = fl.n
    if n == 1:
        for mi in (False, True):
            if with_mut:
                for mj in (False, True):
                    yield (0, 0, mi, mj)
            else:
                yield (0, None, mi, False)
    else:
        for i in range(n):
            if with_mut:
                for j in range(n):
                    yield (i, j, True, True)
            else:
                yield (i, None, True, False)


def markers(fi, i, j, mi, mj, salt):
    d = (fi == i and mi)
    m = (j is not None and fi == j and mj)
    if d and m:
        return [['#[educe(Deref, DerefMut)]'], ['#[educe(DerefMut, Deref)]'], ['#[educe(Deref)]', '#[educe(DerefMut)]'],
                ['#[educe(DerefMut)]', '#[educe(Deref)]']][salt % 4]
    if d:
        return ['#[educe(Deref)]']
    if m:
        return ['#[educe(DerefMut)]']
    return []


def build(shape, opts, cfg, mode='v', noise=None):
    """opts[vi] = (i, j, mi, mj); cfg: 'D' Deref only, 'DM' both educed, 'M' DerefMut educed + hand Deref"""
    with_mut = cfg != 'D'
    lt = mode != 'v'
    tys, fattrs = [], []
    salt = 0
    for vi, f in enumerate(shape.variants):
        i, j, mi, mj = opts[vi]
        t, a = [], []
        for fi in range(f.n):
            salt += 1
            ty = 'V'
            if fi == i and mode == 'r':
                ty = "&'a V"
            elif fi == i and mode == 'rr':
                ty = "&'a &'a V"
            elif fi == i and mode == 'm':
                ty = "&'a mut V"
            t.append(ty)
            if cfg == 'M':
                a.append(['#[educe(DerefMut)]'] if (fi == j and mj) else [])
            else:
                a.append(markers(fi, i, j, mi, mj, salt))
            if noise and noise != 'phantom' and not a[-1]:
                # attributes of other kinds on the fields that are not designated
                a[-1] = {'doc': ['/// a documented field'], 'allow': ['#[allow(unused)]'], 'educe': ['#[educe(Debug(ignore))]'], 'cfg': ['#[cfg(all())]']}[noise]
            if noise == 'phantom' and fi != i and fi != j and fi % 2 == 0:
                t[-1] = 'std::marker::PhantomData<u64>'
        tys.append(t)
        fattrs.append(a)
    traits = {'D': 'Deref', 'DM': 'Deref, DerefMut' if salt % 2 else 'DerefMut, Deref', 'M': 'DerefMut'}[cfg]
    if noise == 'educe':
        traits += ', Debug'
    gen = "<'a>" if lt else ''
    src = S.render_type(shape, ['#[educe(%s)]' % traits], tys, fattrs, generics=gen, derives='Educe')
    tyn = "Ty<'a>" if lt else 'Ty'
    if cfg == 'M':
        arms = []
        for vi, f in enumerate(shape.variants):
            i = opts[vi][0]
            b = ['h' if k == i else '_' for k in range(f.n)]
            arms.append('            %s => h,\n' % S.pattern(shape, vi, b))
        src += 'impl%s ::core::ops::Deref for %s {\n    type Target = V;\n    fn deref(&self) -> &V {\n        match self {\n%s        }\n    }\n}\n' % (gen, tyn, ''.join(arms))
    body = ''
    other = ', _ => unreachable!()' if len(shape.variants) > 1 else ''
    for vi, f in enumerate(shape.variants):
        i, j, mi, mj = opts[vi]
        sent = [(10 * vi + k) % 97 + 1 for k in range(f.n)]
        pre, ex = '', []
        for k in range(f.n):
            if k == i and mode == 'r':
                pre += '        let t%d = V(%d);\n' % (k, sent[k])
                ex.append('&t%d' % k)
            elif k == i and mode == 'rr':
                pre += '        let t%d = V(%d);\n        let u%d = &t%d;\n' % (k, sent[k], k, k)
                ex.append('&u%d' % k)
            elif k == i and mode == 'm':
                pre += '        let mut t%d = V(%d);\n' % (k, sent[k])
                ex.append('&mut t%d' % k)
            elif tys[vi][k].startswith('std::marker::PhantomData'):
                ex.append('std::marker::PhantomData')
            else:
                ex.append('V(%d)' % sent[k])
        binds = ['a%d' % k for k in range(f.n)]
        pat = S.pattern(shape, vi, binds)

        def addr(k):
            if k == i and mode in ('r', 'm'):
                return '(&**a%d) as *const V' % k
            if k == i and mode == 'rr':
                return '(&***a%d) as *const V' % k
            return 'a%d as *const V' % k

        def val(k):
            return '0' if tys[vi][k].startswith('std::marker::PhantomData') else 'a%d.0' % k
        body += '    {\n%s        let %sx = %s;\n' % (pre, 'mut ' if with_mut else '', S.ctor(shape, vi, ex))
        body += '        let want: *const V = match &x { %s => %s%s };\n' % (pat, addr(i), other)
        body += '        let got: *const V = &*x as *const V;\n'
        body += '        r.ck(got == want, 0, &|| format!("variant %d: &*x is at {:?} but the designated field %d is at {:?}", got, want));\n' % (vi, i)
        if with_mut:
            body += '        let wantm: *const V = match &x { %s => %s%s };\n' % (pat, addr(j), other)
            body += '        let gotm: *const V = (&mut *x) as *mut V as *const V;\n'
            body += '        r.ck(gotm == wantm, 1, &|| format!("variant %d: &mut *x is at {:?} but the DerefMut field %d is at {:?}", gotm, wantm));\n' % (vi, j)
            body += '        *x = V(99);\n'
            exp = ', '.join('99' if k == j else ('0' if tys[vi][k].startswith('std::marker::PhantomData') else str(sent[k])) for k in range(f.n))
            body += '        let now: Vec<u8> = match &x { %s => vec![%s]%s };\n' % (pat, ', '.join(val(k) for k in range(f.n)), other)
            body += '        r.ck(now == vec![%s], 2, &|| format!("variant %d: after *x = V(99) the fields are {:?}, expected [%s]", now));\n' % (exp, vi, exp)
        body += '    }\n'
    src += 'pub fn check(r: &mut Rep) {\n%s}\n' % body
    okey = ';'.join('%s/%s%s%s' % (o[0], '-' if o[1] is None else o[1], 'D' if o[2] else '', 'M' if o[3] else '') for o in opts)
    key = 'C09|%s|%s|%s|%s%s' % (cfg, mode, shape.code(), okey, '|' + noise if noise else '')
    depth = sum(1 for o in opts if o[2]) + sum(1 for o in opts if o[3]) + (mode != 'v') + (cfg != 'D')
    return Case(key, src, {'cfg': cfg, 'mode': mode, 'shape': shape.code(), 'designation': okey}, expect='accept', run=True, depth=depth)


def generate(tier):
    cases = []
    fmax = 3 if tier == 'quick' else 4
    lists = [S.Fields(s, n) for n in range(1, fmax + 1) for s in 'tn']
    for cfg in ('D', 'DM', 'M'):
        with_mut = cfg != 'D'
        for fl in lists:
            for o in variant_options(fl, with_mut):
                for kind in ('struct', 'enum'):
                    sh = S.Shape(kind, [fl])
                    modes = ['v']
                    if cfg == 'D':
                        modes += ['r', 'rr']
                    if o[1] is None or o[0] == o[1]:
                        modes += ['m'] if cfg != 'M' else []
                    for mode in modes:
                        if cfg == 'M' and not o[3] and fl.n > 1:
                            continue
                        cases.append(build(sh, [o], cfg, mode))
        # very wide (12 fields): markers at positions 0, 1, 9, 10, 11
        for fl in (S.Fields('t', 12), S.Fields('n', 12)):
            for i_ in (0, 1, 9, 10, 11):
                for j_ in ((0, 10, 11) if with_mut else (None,)):
                    o = (i_, j_, True, with_mut and j_ is not None)
                    if cfg == 'M' and not o[3]:
                        continue
                    cases.append(build(S.Shape('struct', [fl]), [o], cfg, 'v'))
                    if cfg != 'M':
                        cases.append(build(S.Shape('enum', [S.Fields('t', 1), fl]), [(0, 0 if with_mut else None, False, False), o], cfg, 'v'))
        # more positions than a byte can index: 300 fields, markers at 255, 256, 258, 299
        if cfg != 'M':
            fl = S.Fields('t', 300)
            for i_, j_ in ((255, 256), (258, 2), (2, 258), (299, 299), (256, 256)):
                o = (i_, j_ if with_mut else None, True, with_mut)
                cases.append(build(S.Shape('struct', [fl]), [o], cfg, 'v'))
                if (i_, j_) in ((258, 2), (256, 256)):
                    cases.append(build(S.Shape('enum', [S.Fields('t', 1), fl]), [(0, 0 if with_mut else None, False, False), o], cfg, 'v'))
        # other attributes / PhantomData on the non-designated fields
        if cfg != 'M':
            for fl in (S.Fields('t', 3), S.Fields('t', 4), S.Fields('n', 3)):
                for o in variant_options(fl, with_mut):
                    for noise in ('doc', 'allow', 'educe', 'cfg', 'phantom'):
                        cases.append(build(S.Shape('struct', [fl]), [o], cfg, 'v', noise=noise))
                        cases.append(build(S.Shape('enum', [S.Fields('t', 1), fl]), [(0, 0 if with_mut else None, False, False), o], cfg, 'v', noise=noise))
        # wide: 5-6 fields, and a 5-variant enum in which one variant's markers move through every position
        for fl in (S.Fields('t', 5), S.Fields('n', 6)):
            for o in variant_options(fl, with_mut):
                if cfg == 'M' and not o[3]:
                    continue
                cases.append(build(S.Shape('struct', [fl]), [o], cfg, 'v'))
                if cfg != 'M':
                    sh5 = S.Shape('enum', [S.Fields('t', 1), S.Fields('n', 2), S.Fields('t', 3), fl, S.Fields('n', 1)])
                    fixed = [(0, 0 if with_mut else None, False, False), (1, 0 if with_mut else None, True, with_mut), (2, 1 if with_mut else None, True, with_mut)]
                    cases.append(build(sh5, fixed + [o] + [(0, 0 if with_mut else None, True, with_mut)], cfg, 'v'))
        # two (three) variants with independent designations
        small = [S.Fields(s, n) for n in (1, 2) for s in 'tn'] + ([S.Fields('t', 3)] if tier != 'quick' else [])
        for combo in itertools.product(small, repeat=2):
            sh = S.Shape('enum', list(combo))
            for oo in itertools.product(*[list(variant_options(f, with_mut)) for f in combo]):
                if cfg == 'M':
                    continue
                cases.append(build(sh, list(oo), cfg, 'v'))
                if combo[1].style == 'n' and combo[1].n > 1:
                    # the same field names at different positions in the two variants (V0 {f0, f1}, V1 {f1, f0})
                    with S.naming('rot'):
                        c = build(sh, list(oo), cfg, 'v')
                    c.key += '|rot'
                    cases.append(c)
        if tier != 'quick' and cfg == 'DM':
            for combo in itertools.product([S.Fields('t', 2), S.Fields('n', 2), S.Fields('t', 1)], repeat=3):
                sh = S.Shape('enum', list(combo))
                for oo in itertools.product(*[list(variant_options(f, True)) for f in combo]):
                    cases.append(build(sh, list(oo), cfg, 'v'))
    # field names that differ by the prefixes the templates use for their bindings (x, _x, __x, ...), and raw identifiers
    from .common import underscorify, rawify
    named = [x for x in cases if ':n' in x.key or '|n' in x.key]
    for c in named[::2]:
        from .common import localsify
        for tr in (underscorify, rawify, lambda c_: localsify(c_, 0), lambda c_: localsify(c_, 1), lambda c_: localsify(c_, 2)):
            r_ = tr(c)
            if r_:
                cases.append(r_)
    from .common import decoy_layer
    cases += decoy_layer([c for c in cases if c is not None])
    seen, out = set(), []
    for c in cases:
        if c.key not in seen:
            seen.add(c.key)
            out.append(c)
    return out


RULE = ('wide (5-6 fields, 5-variant enum) and very wide (12 fields, markers at 0, 1, 9, 10, 11) elements; other attributes (doc comment, #[allow], #[cfg(all())], another trait\'s #[educe]) or PhantomData fields on the non-designated positions; structs and enum variants with 1..F fields (tuple and named) x every position of the Deref marker x every position '
        'of the DerefMut marker (independent; optional marker on a sole field) x {Deref; Deref + DerefMut; DerefMut with a '
        'hand-written Deref} x designated field type {V, &V, &&V, &mut V}; two/three-variant enums with independent '
        'designations; oracle: address of &*x / &mut *x equals the address of the designated field (of the referent for '
        'reference fields) obtained by a hand-written match, and a write through &mut *x changes that field and no other '
        '(distinct sentinels); non-trivial = at least the address check and one more check ran')


def check(v, tier):
    from .common import run_behavioural
    cases = generate(tier)
    run_behavioural(v, cases, 'C09', nontrivial_min=1, min_nontrivial_ratio=0.9)
    return v.finish(RULE, {'bounds': {'fields': 3 if tier == 'quick' else 4, 'variants': 2 if tier == 'quick' else 3}})
