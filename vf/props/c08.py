"""C08 — Default builds exactly the designated value."""
import itertools

from .. import shapes as S
from ..core import Case
from .common import place, CTX

# (id, expression text, field type, expected value expression, is_literal)
CHOICES = [
    ('int/u8', '7', 'u8', '7u8', True), ('int/i64', '7', 'i64', '7i64', True), ('int/DI', '7', 'DI', 'DI(1007)', True),
    ('int/usize', '7', 'usize', '7usize', True),
    ('ints/u8', '7u8', 'u8', '7u8', True), ('ints/u16', '7u8', 'u16', '7u16', True), ('ints/W', '7u8', 'W', 'W(7)', True),
    ('ints/u64', '9u32', 'u64', '9u64', True),
    ('flt/f64', '1.5', 'f64', '1.5f64', True), ('flt/f32', '1.5', 'f32', '1.5f32', True), ('flt/DF', '1.5', 'DF', 'DF(1001.5)', True),
    ('flts/f32', '1.5f32', 'f32', '1.5f32', True), ('flts/f64', '1.5f32', 'f64', '1.5f64', True),
    ('bool/bool', 'true', 'bool', 'true', True), ('bool/DB', 'true', 'DB', 'DB(11)', True),
    ('char/char', "'x'", 'char', "'x'", True), ('char/u32', "'x'", 'u32', '120u32', True), ('char/String', "'x'", 'String', 'String::from("x")', True),
    ('str/str', '"hi"', "&'static str", '"hi"', True), ('str/String', '"hi"', 'String', 'String::from("hi")', True),
    ('byte/u8', "b'x'", 'u8', '120u8', True), ('byte/u16', "b'x'", 'u16', '120u16', True), ('byte/W', "b'x'", 'W', 'W(120)', True),
    ('bstr/ref', 'b"hi"', "&'static [u8; 2]", 'b"hi"', True), ('bstr/Vec', 'b"hi"', 'Vec<u8>', 'vec![104u8, 105u8]', True),
    ('neg/i8', '-5', 'i8', '-5i8', False), ('negs/i32', '-4i8', 'i32', '-4i32', True), ('negf/f64', '-2.5f32', 'f64', '-2.5f64', True), ('neg/DI', '-40', 'DI', 'DI(960)', True),
    ('neg/i64', '-7', 'i64', '-7i64', True), ('sum/u8', '1 + 2', 'u8', '3u8', False), ('call/V', 'mk_v(3)', 'V', 'V(3)', False),
    ('path/u8', 'K7', 'u8', '7u8', False), ('ctor/V', 'V(4)', 'V', 'V(4)', False), ('callS/String', 'String::from("s")', 'String', 'String::from("s")', False),
    ('not/bool', '!false', 'bool', 'true', False), ('cast/u16', '3u8 as u16', 'u16', '3u16', False),
]
# the systematic part of the literal-kind x field-type matrix: every std target type that has a From impl for the literal's natural type
INTS = ['u8', 'u16', 'u32', 'u64', 'u128', 'usize', 'i8', 'i16', 'i32', 'i64', 'i128', 'isize']
_have = {c[0] for c in CHOICES}


def _add(cid, lit, ty, exp):
    if cid not in _have:
        _have.add(cid)
        CHOICES.append((cid, lit, ty, exp, True))


for _t in ['u8', 'u16', 'u32', 'u64', 'u128', 'usize', 'i16', 'i32', 'i64', 'i128', 'isize', 'f32', 'f64', 'char']:       # From<u8>
    _e = "'x'" if _t == 'char' else ('120.0' + _t if _t[0] == 'f' else '120' + _t)
    _add('byte/' + _t, "b'x'", _t, _e)
    _add('ints/' + _t, '7u8', _t, "'\\u{7}'" if _t == 'char' else ('7.0' + _t if _t[0] == 'f' else '7' + _t))
for _t in INTS:
    _add('bool/' + _t, 'true', _t, '1' + _t)                                  # From<bool>
    _add('int/' + _t, '7', _t, '7' + _t)                                      # unsuffixed integer: the field's own type
for _t in ['i16', 'i32', 'i64', 'i128', 'isize', 'f32', 'f64']:
    _add('negs8/' + _t, '-4i8', _t, ('-4.0' + _t) if _t[0] == 'f' else '-4' + _t)     # From<i8>
for _t in ['u32', 'u64', 'u128', 'i32', 'i64', 'i128', 'usize', 'f32', 'f64']:
    _add('ints16/' + _t, '300u16', _t, ('300.0' + _t) if _t[0] == 'f' else '300' + _t)   # From<u16>
for _t in ['u64', 'u128', 'String', 'char']:
    _add('char/' + _t, "'x'", _t, {'String': 'String::from("x")', 'char': "'x'"}.get(_t, '120' + _t))   # From<char>
for _t, _e in [('Box<str>', 'Box::<str>::from("hi")'), ("std::borrow::Cow<'static, str>", 'std::borrow::Cow::Borrowed("hi")'), ('std::path::PathBuf', 'std::path::PathBuf::from("hi")'),
               ('std::rc::Rc<str>', 'std::rc::Rc::<str>::from("hi")'), ('Vec<u8>', 'vec![104u8, 105u8]'), ('std::ffi::OsString', 'std::ffi::OsString::from("hi")')]:
    _add('str/' + _t, '"hi"', _t, _e)                                        # From<&str>
_add('flts/f32x', '2.5f32', 'f32', '2.5f32')
_add('flts/f64-inexact', '0.1f32', 'f64', 'f64::from(0.1f32)')
_add('negf/f64-inexact', '-2.7f32', 'f64', 'f64::from(-2.7f32)')
_add('flts/f64-big', '16777217.0f32', 'f64', 'f64::from(16777217.0f32)')
_add('flt/f32-inexact', '0.1', 'f32', '0.1f32')
_add('flt/f64-inexact', '0.1', 'f64', '0.1f64')
_add('flt/f64n', '-1.5', 'f64', '-1.5f64')
_add('bstr/Cow', 'b"hi"', "std::borrow::Cow<'static, [u8]>", 'std::borrow::Cow::Borrowed(&b"hi"[..])')
CH = {c[0]: c for c in CHOICES}
TYPE_DEFAULT = {'u8': '0u8', 'V': 'V(0)', 'String': 'String::new()', 'bool': 'false', 'u16': '0u16', 'Inh': 'inh(0)'}
SPELL = ['Default = {e}', 'Default(expression = {e})', 'Default(expr = {e})', 'Default(expression({e}))', 'Default(expr({e}))']


def field_plan(choice, sp):
    """choice: ('d', type) for the type default or a CHOICES id.  Returns (type, meta or None, expected)"""
    if choice[0] == 'd':
        return choice[1], None, TYPE_DEFAULT[choice[1]]
    c = CH[choice]
    return c[2], SPELL[sp % len(SPELL)].format(e=c[1]), c[3]


def build(kind, style, choices, sps, vstyles=None, focus=0, marker=True, tl='none', ctx='alone', tag=''):
    """kind struct|enum|union.  choices: per field of the focus element.  vstyles: enum sibling list with the focus
    element at index `focus` (entries 'F' for focus, 'u','t','n' for plain siblings).  tl: none|new|expr|both."""
    n = len(choices)
    plans = [field_plan(c, sp) for c, sp in zip(choices, sps)]
    lt = any("'a" in p[0] for p in plans)
    fl = S.Fields(style, n)
    type_metas = ['Default']
    exp_fields = [p[2] for p in plans]
    fattr = [place(p[1], 'Debug(ignore)', ctx) for p in plans]
    ftys = [p[0] for p in plans]
    if kind == 'struct':
        shape = S.Shape('struct', [fl])
        tys, fattrs, vattrs = [ftys], [fattr], None
        expected = S.ctor(shape, 0, exp_fields)
    elif kind == 'enum':
        vs, tys, fattrs, vattrs = [], [], [], []
        for i, st in enumerate(vstyles):
            if st == 'F':
                vs.append(fl)
                tys.append(ftys)
                fattrs.append(fattr)
                vattrs.append(['#[educe(Default)]'] if marker else [])
            else:
                f = S.Fields(st, 0 if st == 'u' else 1)
                vs.append(f)
                tys.append(['V'] * f.n)
                fattrs.append([[] for _ in range(f.n)])
                vattrs.append([])
        shape = S.Shape('enum', vs)
        expected = S.ctor(shape, focus, exp_fields)
    else:
        # union: fields f0..f(n-1); `focus` is the designated field; choices has one entry (for the focus field)
        nf = len(vstyles)
        shape = S.Shape('union', [S.Fields('n', nf)])
        utys = ['u16', 'u8', 'u32', 'V']
        tys0, fa0 = [], []
        for i in range(nf):
            if i == focus:
                tys0.append(plans[0][0])
                lines = fattr[0]
                if plans[0][1] is None:
                    lines = (['#[educe(Default)]'] if marker else [])
                fa0.append(lines)
            else:
                tys0.append(utys[i % len(utys)])
                fa0.append([])
        tys, fattrs, vattrs = [tys0], [fa0], None
        expected = None
    tparams = []
    if tl in ('new', 'both'):
        tparams.append(['new', 'new = true', 'new(true)'][sum(sps) % 3])
    texp = None
    if tl in ('expr', 'both'):
        # type-level expression: a different value than the fields' (fields must then carry nothing)
        return None
    traits = 'Default' if not tparams else 'Default(%s)' % ', '.join(tparams)
    if ctx != 'alone':
        traits = ('Debug, ' + traits) if ctx.endswith('before') else (traits + ', Debug')
    derives = 'Educe, PartialEq' + (', Debug' if ctx == 'alone' else '') if kind != 'union' else 'Educe'
    if kind == 'union' and ctx != 'alone':
        return None
    src = S.render_type(shape, ['#[educe(%s)]' % traits], tys, fattrs, vattrs, derives=derives)
    body = ''
    if kind == 'union':
        body += '    let x = Ty::default();\n    let got = unsafe { x.f%d };\n    let want: %s = %s;\n' % (focus, plans[0][0], plans[0][2])
        body += '    r.ck(got == want, 0, &|| format!("default().f%d = {:?}, expected {:?}", got, want));\n' % focus
        if tparams:
            body += '    let y = Ty::new();\n    let got2 = unsafe { y.f%d };\n    r.ck(got2 == want, 1, &|| format!("new().f%d = {:?}, expected {:?}", got2, want));\n' % (focus, focus)
    else:
        dbg = '{:?}' if ctx == 'alone' else '<value>'
        body += '    let x = Ty::default();\n    let want = %s;\n' % expected
        if ctx == 'alone':
            body += '    r.ck(x == want, 0, &|| format!("default() = {:?}, expected {:?}", x, want));\n'
        else:
            body += '    r.ck(x == want, 0, &|| "default() differs from the expected value".to_string());\n'
        if tparams:
            body += '    let y = Ty::new();\n    r.ck(y == want, 1, &|| "new() differs from default()".to_string());\n'
    src += 'pub fn check(r: &mut Rep) {\n%s}\n' % body
    key = 'C08|%s|%s|%s|%s|%s|%s%s%s' % (kind, style + str(n), ','.join(c if isinstance(c, str) else 'd:' + c[1] for c in choices),
                                       ''.join(str(s) for s in sps), ''.join(vstyles) + '@%d%s' % (focus, '' if marker else '-nomark') if vstyles else '', tl,
                                       '' if ctx == 'alone' else '|' + ctx, tag)
    depth = sum(1 for c in choices if isinstance(c, str)) + (tl != 'none') + (ctx != 'alone') + (1 if kind != 'struct' and marker else 0)
    return Case(key, src, {'kind': kind, 'style': style, 'choices': [c if isinstance(c, str) else list(c) for c in choices],
                           'spellings': list(sps), 'variants': vstyles, 'focus': focus, 'type_level': tl, 'ctx': ctx},
                expect='accept', run=True, depth=depth)


TEXPR_MORE = {
    'enum1t': ('pub enum Ty {\n    V0(u8, V),\n}\n', 'Ty::V0(5, V(6))'),
    'enum1n': ('pub enum Ty {\n    V0 { f0: u8, f1: V },\n}\n', 'Ty::V0 { f0: 5, f1: V(6) }'),
    'enum1u': ('pub enum Ty {\n    V0,\n}\n', 'Ty::V0'),
    'enum1t1': ('pub enum Ty {\n    V0(u8),\n}\n', 'Ty::V0(5)'),
    'enum2': ('pub enum Ty {\n    V0(u8),\n    V1 { f0: u8 },\n}\n', 'Ty::V1 { f0: 7 }'),
    'enum5': ('pub enum Ty {\n    V0,\n    V1,\n    V2(u8),\n    V3,\n    V4 { f0: V, f1: u8 },\n}\n', 'Ty::V4 { f0: V(3), f1: 4 }'),
    'struct1': ('pub struct Ty {\n    pub f0: u8,\n}\n', 'Ty { f0: 5 }'),
    'tuple1': ('pub struct Ty(pub V);\n', 'Ty(V(6))'),
    'unit': ('pub struct Ty;\n', 'Ty'),
    'tuple0': ('pub struct Ty();\n', 'Ty()'),
    'named0': ('pub struct Ty {}\n', 'Ty {}'),
    'call': ('pub struct Ty(pub u8, pub u8);\nfn mk() -> Ty { Ty(8, 9) }\n', 'mk()'),
}


def build_type_expr(kind, tl, salt):
    """type-level expression (and optionally new): fields carry no attributes"""
    sp = ['expression = {e}', 'expr = {e}', 'expression({e})', 'expr({e})'][salt % 4]
    if kind == 'struct':
        decl = 'pub struct Ty {\n    pub f0: u8,\n    pub f1: V,\n}\n'
        e = 'Ty { f0: 5, f1: V(6) }'
        want = e
    elif kind == 'tuple':
        decl = 'pub struct Ty(pub u8, pub V);\n'
        e = 'Ty(5, V(6))'
        want = e
    elif kind == 'enum':
        decl = 'pub enum Ty {\n    V0,\n    V1(u8),\n    V2 { f0: V },\n}\n'
        e = ['Ty::V1(9)', 'Ty::V2 { f0: V(2) }', 'Ty::V0'][salt % 3]
        want = e
    elif kind in TEXPR_MORE:
        decl, e = TEXPR_MORE[kind]
        want = e
    else:
        decl = 'pub union Ty {\n    pub f0: u8,\n    pub f1: u16,\n}\n'
        e = 'Ty { f1: 300 }'
        want = None
    params = [sp.format(e=e)]
    if tl == 'both':
        params = [params[0], 'new'] if salt % 2 else ['new', params[0]]
    src = '#[derive(%s)]\n#[educe(Default(%s))]\n%s' % ('Educe' if kind == 'union' else 'Educe, PartialEq, Debug', ', '.join(params), decl)
    if kind == 'union':
        body = '    let x = Ty::default();\n    r.ck(unsafe { x.f1 } == 300, 0, &|| "default() is not the type-level expression".to_string());\n'
        if tl == 'both':
            body += '    let y = Ty::new();\n    r.ck(unsafe { y.f1 } == 300, 1, &|| "new() differs from default()".to_string());\n'
    else:
        body = '    let x = Ty::default();\n    let want = %s;\n    r.ck(x == want, 0, &|| format!("default() = {:?}, expected {:?}", x, want));\n' % want
        if tl == 'both':
            body += '    let y = Ty::new();\n    r.ck(y == want, 1, &|| format!("new() = {:?}, expected {:?}", y, want));\n'
    src += 'pub fn check(r: &mut Rep) {\n%s}\n' % body
    return Case('C08|texpr|%s|%s|%d' % (kind, tl, salt), src, {'kind': kind, 'type_level': tl, 'spelling': sp}, expect='accept',
                run=True, depth=1 + (tl == 'both'))


def generate(tier):
    cases = []

    def add(c):
        if c is not None:
            cases.append(c)
    ids = [c[0] for c in CHOICES]
    # one-field elements: every literal kind x field type x spelling x element kind
    for cid in ids:
        for sp in range(5):
            if sp == 0 and not CH[cid][4] and cid in ('sum/u8', 'cast/u16'):
                pass
            add(build('struct', 'n', [cid], [sp]))
            add(build('struct', 't', [cid], [sp]))
            add(build('enum', 'n', [cid], [sp], vstyles=['u', 'F', 't'], focus=1))
            add(build('enum', 't', [cid], [sp], vstyles=['n', 'u', 'F'], focus=2))
            if "'a" not in CH[cid][2] and CH[cid][2] not in ('String', 'Vec<u8>') and not CH[cid][2].startswith(('Box<', 'std::')):
                add(build('union', 'n', [cid], [sp], vstyles=['x', 'x'], focus=(sp % 2)))
                if sp < 2 or tier != 'quick':
                    add(build('union', 'n', [cid], [sp], vstyles=['x'], focus=0, tag='|sole'))
    # two-field elements: pairs over a representative list (+ type default)
    rep = [('d', 'u8'), ('d', 'V'), ('d', 'String'), ('d', 'Inh'), 'int/u8', 'ints/u16', 'str/String', 'char/u32', 'call/V', 'flt/DF', 'byte/W']
    if tier != 'quick':
        rep += ['bstr/Vec', 'bool/DB', 'flts/f64', 'neg/i8']
    for a, b in itertools.product(rep, repeat=2):
        sp = (rep.index(a) + 2 * rep.index(b)) % 5
        for style in 'tn':
            add(build('struct', style, [a, b], [sp, sp + 1]))
            add(build('enum', style, [a, b], [sp + 2, sp], vstyles=['F', 'u'], focus=0))
            if tier != 'quick':
                add(build('enum', style, [a, b], [sp + 1, sp + 3], vstyles=['t', 'F'], focus=1))
    # marker positions on enums / unions, plain fields
    for vn in (1, 2, 3):
        for styles in itertools.product('utn', repeat=vn):
            for p in range(vn):
                vst = list(styles)
                fst = vst[p]
                vst[p] = 'F'
                ch = [] if fst == 'u' else [('d', 'u8')]
                for new in ('none', 'new'):
                    add(build('enum', fst if fst != 'u' else 'u', ch, [0] * len(ch), vstyles=vst, focus=p, marker=True, tl=new))
                    if vn == 1:
                        add(build('enum', fst if fst != 'u' else 'u', ch, [0] * len(ch), vstyles=vst, focus=p, marker=False, tl=new))
    for nf in (1, 2, 3):
        for p in range(nf):
            for new in ('none', 'new'):
                add(build('union', 'n', [('d', 'u16')], [0], vstyles=['x'] * nf, focus=p, marker=True, tl=new, tag='|mark'))
                if nf == 1:
                    add(build('union', 'n', [('d', 'u16')], [0], vstyles=['x'] * nf, focus=p, marker=False, tl=new, tag='|nomark'))
    # wide: the default variant at every position of 4- and 5-variant enums; 4-5 field elements with one or two expression fields
    for vn in (4, 5):
        for p_ in range(vn):
            vst = [('u', 't', 'n')[(i + vn) % 3] for i in range(vn)]
            fst = vst[p_]
            vst[p_] = 'F'
            ch = [] if fst == 'u' else [('d', 'u8')]
            add(build('enum', fst, ch, [0] * len(ch), vstyles=vst, focus=p_, marker=True, tl='new' if p_ % 2 else 'none', tag='|wide'))
    base = [('d', 'u8'), ('d', 'V'), ('d', 'String'), ('d', 'u16'), ('d', 'bool')]
    exprs = ['int/u8', 'call/V', 'str/String', 'ints/u16', 'bool/bool']
    for n in (4, 5):
        for r in (1, 2):
            for where in itertools.combinations(range(n), r):
                ch = list(base[:n])
                for w in where:
                    ch[w] = exprs[w]
                sps = [(w * 2 + r) % 5 for w in range(n)]
                for style in 'tn':
                    add(build('struct', style, ch, sps, tag='|wide'))
                    add(build('enum', style, ch, sps, vstyles=['u', 't', 'n', 'F'], focus=3, tag='|wide'))
    # very wide: 12 fields, expression at positions 0, 1, 9, 10, 11 (and two at once), the rest defaulted with distinct types cycling
    tcyc = [('d', 'u8'), ('d', 'u16'), ('d', 'V'), ('d', 'bool')]
    ecyc = {'u8': 'int/u8', 'u16': 'ints/u16', 'V': 'call/V', 'bool': 'bool/bool'}
    for where in [(0,), (1,), (9,), (10,), (11,), (1, 10), (2, 11), (9, 10)]:
        ch = [tcyc[i % 4] for i in range(12)]
        for w in where:
            ch[w] = ecyc[ch[w][1]]
        for style in 'tn':
            add(build('struct', style, ch, [w % 5 for w in range(12)], tag='|vwide'))
            add(build('enum', style, ch, [(w + 1) % 5 for w in range(12)], vstyles=['t', 'F', 'u'], focus=1, tag='|vwide'))
    from .common import rawify
    for c in [x for x in cases if x.key.startswith('C08|struct|n') or x.key.startswith('C08|enum|n')][::3]:
        r_ = rawify(c)
        if r_:
            cases.append(r_)
    # unit / empty structs, new
    for style, n in (('u', 0), ('t', 0), ('n', 0)):
        for new in ('none', 'new'):
            add(build('struct', style, [], [], tl=new))
    # type-level expression
    for kind in ['struct', 'tuple', 'enum', 'union'] + sorted(TEXPR_MORE):
        for tl in ('expr', 'both'):
            for salt in range(4 if tier == 'quick' else 12):
                cases.append(build_type_expr(kind, tl, salt))
    # expressions that mention outer items named like the type's own fields (the expression is evaluated in the scope of the derive site, not among the fields)
    for kind, decl, get in (('struct', 'pub struct Ty {{ pub f0: u8, {A1}pub f1: u8, {A2}pub f2: u8 }}', 'x.f{}'),
                            ('tuple', 'pub struct Ty(pub u8, {A1}pub u8, {A2}pub u8);', 'x.{}'),
                            ('enum', 'pub enum Ty {{ V0, #[educe(Default)] V1 {{ f0: u8, {A1}f1: u8, {A2}f2: u8 }} }}', None)):
        for sp in range(5):
            a1 = '#[educe(%s)] ' % SPELL[sp].format(e='f0 + 1' if sp else 'f0')
            a2 = '#[educe(%s)] ' % SPELL[(sp + 1) % 5].format(e='f1() + _0' if (sp + 1) % 5 else 'f2')
            src = '#[allow(non_upper_case_globals)]\nconst f0: u8 = 40;\n#[allow(non_upper_case_globals)]\nconst f2: u8 = 90;\n#[allow(non_upper_case_globals)]\nconst _0: u8 = 5;\nfn f1() -> u8 { 60 }\n'
            src += '#[derive(Educe, Debug, PartialEq)]\n#[educe(Default(new))]\n' + decl.format(A1=a1, A2=a2) + '\n'
            w1 = 41 if sp else 40
            w2 = 65 if (sp + 1) % 5 else 90
            if kind == 'enum':
                want = 'Ty::V1 { f0: 0, f1: %d, f2: %d }' % (w1, w2)
            elif kind == 'struct':
                want = 'Ty { f0: 0, f1: %d, f2: %d }' % (w1, w2)
            else:
                want = 'Ty(0, %d, %d)' % (w1, w2)
            src += ('pub fn check(r: &mut Rep) {\n    let want = %s;\n    let x = Ty::default();\n    r.ck(x == want, 0, &|| format!("default() = {:?}, expected {:?}", x, want));\n'
                    '    let y = Ty::new();\n    r.ck(y == want, 1, &|| format!("new() = {:?}, expected {:?}", y, want));\n}\n') % want
            cases.append(Case('C08|outer-names|%s|%d' % (kind, sp), src, {'kind': kind, 'expressions': 'outer items named f0, f1, f2, _0'}, expect='accept', run=True, depth=2))
    # a union whose designated field has an expression and a type without Default (the type must not be asked for Default)
    for k, (ty, expr, probe) in enumerate((('[u8; 40]', 'mk_arr40()', 'unsafe { x.f0[39] } == 7'), ("&'static No", 'NO_REF', 'true'), ('fn(u8) -> u8', 'mk_fn()', 'unsafe { (x.f0)(1) } == 2'))):
        for sp in range(1, 5):
            src = 'fn mk_arr40() -> [u8; 40] { [7; 40] }\nstatic NO: No = No;\nconst NO_REF: &\'static No = &NO;\nfn inc(x: u8) -> u8 { x + 1 }\nfn mk_fn() -> fn(u8) -> u8 { inc }\n'
            src += '#[derive(Educe)]\n#[educe(Default(new))]\npub union Ty {\n    #[educe(%s)]\n    pub f0: %s,\n    pub f1: u8,\n}\n' % (SPELL[sp].format(e=expr), ty)
            src += 'pub fn check(r: &mut Rep) {\n    let x = Ty::default();\n    r.ck(%s, 0, &|| "default() does not hold the expression".to_string());\n    let x = Ty::new();\n    r.ck(%s, 1, &|| "new() does not hold the expression".to_string());\n}\n' % (probe, probe)
            cases.append(Case('C08|union-expr-nodefault|%d|%d' % (k, sp), src, {'field_type': ty, 'expression': expr}, expect='accept', run=True, depth=2))
    # generic items: the default value of a field whose type depends on a parameter (const, lifetime, type) - `[u8; N]: Default` holds for concrete small N only,
    # so the impl has to carry its own bound whatever kinds of parameter the item has
    GEN = (('const', '<const CN: usize>', '<3>', '[u8; CN]', '[0u8; 3]', 'CN + 1', '4usize'),
           ('lt+const', "<'a, const CN: usize>", "<'static, 3>", "(Option<&'a u8>, [u16; CN])", '(None, [0u16; 3])', 'CN * 2', '6usize'),
           ('2const', '<const CW: usize, const CH: usize>', '<2, 3>', '[[i32; CW]; CH]', '[[0i32; 2]; 3]', 'CW * CH', '6usize'),
           ('ty+const', '<T, const CN: usize>', '<u16, 3>', '([T; CN], T)', '([0u16; 3], 0u16)', 'CN', '3usize'),
           ('ty', '<T>', '<u16>', '(T, Option<T>)', '(0u16, None)', '7', '7usize'),
           ('lt', "<'a>", "<'static>", "Option<&'a str>", 'None', '7', '7usize'))
    for gname, gen, inst, fty, fdef, expr, eval_ in GEN:
        for kind in ('sn', 'st', 'en', 'et'):
            for sp in range(1, 5):
                at = '#[educe(%s)] ' % SPELL[sp].format(e=expr)
                if kind == 'sn':
                    decl = 'pub struct Ty%s { pub a: %s, %spub b: usize, pub c: %s }' % (gen, fty, at, fty)
                    want = 'Ty { a: %s, b: %s, c: %s }' % (fdef, eval_, fdef)
                elif kind == 'st':
                    decl = 'pub struct Ty%s(pub %s, %spub usize, pub %s);' % (gen, fty, at, fty)
                    want = 'Ty(%s, %s, %s)' % (fdef, eval_, fdef)
                elif kind == 'en':
                    decl = 'pub enum Ty%s { V0, #[educe(Default)] V1 { a: %s, %sb: usize }, V2(%s) }' % (gen, fty, at, fty)
                    want = 'Ty::V1 { a: %s, b: %s }' % (fdef, eval_)
                else:
                    decl = 'pub enum Ty%s { V0(%s), #[educe(Default)] V1(%susize, %s) }' % (gen, fty, at, fty)
                    want = 'Ty::V1(%s, %s)' % (eval_, fdef)
                src = '#[derive(Educe, Debug, PartialEq)]\n#[educe(Default(new))]\n%s\n' % decl
                src += ('pub fn check(r: &mut Rep) {\n    let want: Ty%s = %s;\n    let x = <Ty%s>::default();\n    r.ck(x == want, 0, &|| format!("default() = {:?}, expected {:?}", x, want));\n'
                        '    let y = <Ty%s>::new();\n    r.ck(y == want, 1, &|| format!("new() = {:?}, expected {:?}", y, want));\n}\n') % (inst, want, inst, inst)
                cases.append(Case('C08|generic|%s|%s|%d' % (gname, kind, sp), src, {'generics': gen, 'kind': kind, 'field_type': fty, 'expression': expr}, expect='accept', run=True, depth=2))
    # attribute contexts
    for cid in ('ints/u16', 'str/String', 'call/V', 'int/DI'):
        for sp in range(5):
            for ctx in CTX[1:]:
                add(build('struct', 'n', [cid, ('d', 'u8')], [sp, 0], ctx=ctx))
                add(build('enum', 't', [('d', 'V'), cid], [0, sp], vstyles=['u', 'F'], focus=1, ctx=ctx))
    from .common import decoy_layer
    cases += decoy_layer([c for c in cases if c is not None])
    seen, out = set(), []
    for c in cases:
        if c.key not in seen:
            seen.add(c.key)
            out.append(c)
    return out


RULE = ('wide (4-5 variants, default marker at every position; 4-5 fields with one or two expression fields) and very wide (12 fields, expression at positions 0, 1, 9, 10, 11) elements, raw-identifier field names; one-field elements: every literal kind (int, suffixed int, float, suffixed float, bool, char, str, byte, byte string) '
        'and non-literal expression x field type {natural type, std type reachable by Into, user type with From<literal type>} '
        'x spelling {= lit, expression = e, expr = e, expression(e), expr(e)} x element {named/tuple struct, middle named '
        'variant, last tuple variant, union field, sole union field}; two-field elements over a representative list incl. the '
        'type default; every position of the default-variant marker over variant styles {unit, tuple, named}^V (V<=3) and of '
        'the union-field marker (optional when sole), with and without `new`; unit/empty structs; type-level expression x '
        'spelling x new; attribute contexts.  Oracle: the value written out by the generator as a constructor expression, '
        'compared through std-derived PartialEq; new() == default()')


def check(v, tier):
    from .common import run_behavioural
    cases = generate(tier)
    run_behavioural(v, cases, 'C08', nontrivial_min=1, min_nontrivial_ratio=0.95)
    return v.finish(RULE, {'bounds': {'tier': tier, 'variants': 3, 'fields': 2}})
