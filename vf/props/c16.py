"""C16 — expansion is deterministic (engine XP under a controlled hash seed, all histories of a corpus)."""
import concurrent.futures as cf
import itertools
import os
import subprocess

from .. import catalog as K
from .. import core
from .. import xp
from ..core import shash, Case, guard


def shim():
    so = os.path.join(core.BUILD, 'seed.so')
    src = os.path.join(core.VERIF, 'support', 'seed.c')
    if not os.path.exists(so) or os.path.getmtime(so) < os.path.getmtime(src):
        os.makedirs(core.BUILD, exist_ok=True)
        rc, out, err = core.run_proc(['cc', '-shared', '-fPIC', '-O1', '-o', so, src], timeout=120)
        if rc != 0:
            raise core.MachineryError('cannot build the seed shim: ' + err)
    return so


POSFAM = []


def corpus(tier):
    out = []
    del POSFAM[:]
    # several Into targets in every declaration order, on every shape, with field-level markers
    tys = ['u8', 'u16', 'u32', 'W', "&'static str", 'Vec<u8>']
    shapes = [K.XShape('struct', [('n', 1)]), K.XShape('struct', [('t', 2)]), K.XShape('enum', [('t', 1), ('n', 2)])]
    for n in (2, 3, 4):
        for combo in itertools.combinations(tys, n):
            perms = list(itertools.permutations(combo))
            if tier == 'quick' and n == 4:
                perms = perms[::5]
            for perm in perms:
                for sh in shapes:
                    f = {}
                    for vi, (s, cnt) in enumerate(sh.variants):
                        if cnt > 1:
                            for k, t in enumerate(perm):
                                f.setdefault((vi, k % cnt), []).append('Into(%s)' % t if k % 2 else 'Into(%s, method(m))' % t)
                    cfg = K.Config('Into' + '/'.join(perm), ['Into(%s)' % t for t in perm], {}, f)
                    out.append(K.render(sh, cfg, 'each' if n % 2 else 'one'))
    # refused requests must be refused the same way
    out.append('#[derive(Educe)] #[educe(Into(u8), Into(u16), Into(u32))] struct Ty { a: i8, b: i8 }')
    out.append('#[derive(Educe)] #[educe(Into(u8))] struct Ty { #[educe(Into(u16), Into(u32), Into(u64))] a: u8, b: u8 }')
    out.append('#[derive(Educe)] #[educe(Into(u8), Into(u16))] enum Ty { A(#[educe(Into(u8), Into(u16))] u8, #[educe(Into(u16), Into(u8))] u8) }')
    # requests with several independent offences at different positions: which one is reported must not depend on the seed
    out.append('#[derive(Educe)] #[educe(Into(u8))] struct Ty { #[educe(Into(u16))] a: u8, #[educe(Into(u32))] b: u8, #[educe(Into(u64))] c: u8, #[educe(Into(i64))] d: u8 }')
    out.append('#[derive(Educe)] #[educe(Into(u8))] enum Ty { A { #[educe(Into(u16))] a: u8, #[educe(Into(u32))] b: u8 }, B(#[educe(Into(u64))] u8, #[educe(Into(i8))] u8) }')
    out.append('#[derive(Educe)] #[educe(PartialEq)] struct Ty { #[educe(Debug(ignore))] a: u8, #[educe(Hash(ignore))] b: u8, #[educe(Clone(method(m)))] c: u8, #[educe(Default = 1)] d: u8 }')
    out.append('#[derive(Educe)] #[educe(PartialEq, PartialOrd)] struct Ty { #[educe(PartialOrd(rank = 1))] a: u8, #[educe(PartialOrd(rank = 1))] b: u8, #[educe(PartialOrd(rank = 2))] c: u8, #[educe(PartialOrd(rank = 2))] d: u8 }')
    out.append('#[derive(Educe)] #[educe(Deref)] struct Ty { #[educe(Deref)] a: u8, #[educe(Deref)] b: u8, #[educe(Deref)] c: u8 }')
    out.append('#[derive(Educe)] #[educe(Default)] enum Ty { #[educe(Default)] A, #[educe(Default)] B, #[educe(Default)] C(u8) }')
    out.append('#[derive(Educe)] #[educe(Into(u8), Into(u16), Into(u32))] struct Ty { a: i8, b: i16, c: i32, d: i64 }')
    out.append('#[derive(Educe)] #[educe(Debug, Nope, Clone, Nada, Hash, Zilch)] struct Ty { a: u8 }')
    out.append('#[derive(Educe)] #[educe(Debug, Clone)] struct Ty { #[educe(Nope)] a: u8, #[educe(Nada)] b: u8, #[educe(Zilch)] c: u8 }')
    for ts in ('PartialOrd, Ord, Deref, DerefMut, Into(u8)', 'Into(u8), DerefMut, Deref, Ord, PartialOrd', 'Debug(unsafe), PartialOrd, Into(u16), Deref', 'Deref, Into(u8), Into(u16), Ord'):
        out.append('#[derive(Educe)] #[educe(%s)] union Ty { a: u8, b: u16 }' % ts)
        out.append('#[derive(Educe)] %s union Ty { a: u8 }' % ' '.join('#[educe(%s)]' % t.strip() for t in ts.split(', ') if '(' not in t or t.startswith(('Into', 'Debug'))))
    out.append('#[derive(Educe)] #[educe(Deref, DerefMut, Into(u8))] enum Ty { A, B, C(u8) }')
    out.append('#[derive(Educe)] #[educe(Debug(name = false), Deref, Into(u8))] struct Ty;')
    # explicit bound modes on items that agree in the *number* of generic parameters but not in their kinds or names (anything remembered per count / per name shows)
    gens = ["<'a, T>", '<T, U>', '<const N: usize, T>', '<U, T>', "<'a, 'b>", '<T, const N: usize>', "<'a, U>", '<A, B>']
    uses = {"<'a, T>": "&'a T", '<T, U>': '(T, U)', '<const N: usize, T>': '[T; N]', '<U, T>': '(U, T)', "<'a, 'b>": "(&'a u8, &'b u8)", '<T, const N: usize>': '[T; N]', "<'a, U>": "&'a U", '<A, B>': '(A, B)'}
    for b in ('bound(*)', 'bound = false', 'bound(u8: Copy)'):
        for ts in ('Clone(%s)', 'Debug(%s), PartialEq(%s)', 'Hash(%s), Default(%s)', 'PartialEq(%s), PartialOrd(%s)'):
            for g in gens:
                out.append('#[derive(Educe)] #[educe(%s)] struct Ty%s { f: %s, n: u8 }' % (ts.replace('%s', b), g, uses[g]))
                out.append('#[derive(Educe)] #[educe(%s)] enum Ty%s { %sA(%s), B { n: u8 } }' % (ts.replace('%s', b), g, '#[educe(Default)] ' if 'Default' in ts else '', uses[g]))
    # an item refused inside the second handler of a coupled pair, then an item educing that second trait alone (and the other way round)
    for a, b in (('PartialOrd', 'Ord'), ('PartialEq', 'Eq'), ('Clone', 'Copy'), ('Deref', 'DerefMut')):
        mk = '#[educe(Deref, DerefMut)] ' if a == 'Deref' else ''
        out.append('#[derive(Educe)] #[educe(%s, %s(bogus))] struct Ty { %sa: u8, b: u8 }' % (a, b, mk))
        out.append('#[derive(Educe)] #[educe(%s)] struct Ty { %sa: u8, b: u8 }' % (b, mk.replace('Deref, ', '')))
        out.append('#[derive(Educe)] #[educe(%s(bogus), %s)] enum Ty { A(%su8), B { %sx: u8 } }' % (a, b, mk, mk))
        out.append('#[derive(Educe)] #[educe(%s)] enum Ty { A(%su8), B { %sx: u8 } }' % (b, mk.replace('Deref, ', ''), mk.replace('Deref, ', '')))
        out.append('#[derive(Educe)] #[educe(%s)] enum Ty { A(%su8), B { %sx: u8 } }' % (a, mk.replace(', DerefMut', ''), mk.replace(', DerefMut', '')))
    out.append('#[derive(Educe)] #[educe(PartialEq, Eq, PartialOrd, Ord)] struct Ty { #[educe(Ord(rank = 1))] a: u8, #[educe(Ord(rank = 1))] b: u8 }')
    out.append('#[derive(Educe)] #[educe(PartialOrd, Ord)] union Ty { a: u8 }')
    out.append('#[derive(Educe)] #[educe(Ord)] struct Ty { a: u8, b: u8 }')
    out.append('#[derive(Educe)] #[educe(Ord)] enum Ty { A(u8), B }')
    # malformed parameters of every trait at every level and on every kind of item: the text of a diagnostic must not depend on what was expanded before
    for t in ('Debug', 'Clone', 'Copy', 'PartialEq', 'Eq', 'PartialOrd', 'Ord', 'Hash', 'Default', 'Deref', 'DerefMut', 'Into'):
        tl = {'Into': 'Into(u8)', 'Ord': 'PartialOrd, Ord', 'Eq': 'PartialEq, Eq', 'Copy': 'Copy, Clone', 'DerefMut': 'Deref, DerefMut'}.get(t, t)
        utl = {'Debug': 'Debug(unsafe)', 'PartialEq': 'PartialEq(unsafe)', 'Hash': 'Hash(unsafe)', 'Eq': 'PartialEq(unsafe), Eq'}.get(t, tl)
        bad_ = '%s(bogus)' % t if t != 'Into' else 'Into(u8, bogus)'
        out.append('#[derive(Educe)] #[educe(%s)] struct Ty { a: u8 }' % bad_)
        out.append('#[derive(Educe)] #[educe(%s)] struct Ty { #[educe(%s)] a: u8, b: u8 }' % (tl, bad_))
        out.append('#[derive(Educe)] #[educe(%s)] struct Ty(u8, #[educe(%s)] u8);' % (tl, bad_))
        out.append('#[derive(Educe)] #[educe(%s)] enum Ty { #[educe(%s)] A(u8), B { x: u8 } }' % (tl, bad_))
        out.append('#[derive(Educe)] #[educe(%s)] enum Ty { A(u8), B { #[educe(%s)] x: u8 } }' % (tl, bad_))
        if t in ('Debug', 'Clone', 'Copy', 'PartialEq', 'Eq', 'Hash', 'Default'):
            out.append('#[derive(Educe)] #[educe(%s)] union Ty { #[educe(%s)] a: u8, b: u16 }' % (utl, bad_))
            out.append('#[derive(Educe)] #[educe(%s)] union Ty { #[educe(%s)] a: u8, b: u16 }' % (utl, {'Default': 'Default(ignore)'}.get(t, '%s(ignore)' % t)))
        out.append('#[derive(Educe)] #[educe(%s)] struct Ty { #[educe(%s)] a: u8, b: u8 }' % (tl, {'Default': 'Default(skip)', 'Into': 'Into(u8, skip)'}.get(t, '%s(skip)' % t)))
    # the same type under different levels of references / by value, in one process in both orders (anything remembered per type must tell them apart)
    for t in ('u8', 'str', 'W'):
        for lvl in ('{T}', "&'static {T}", "&'static &'static {T}", "&'static mut {T}", '&{T}'):
            ty = lvl.replace('{T}', t)
            if ty == 'str':
                continue
            out.append("#[derive(Educe)] #[educe(Into(%s))] struct Ty { level: %s, weight: u16 }" % (ty, ty.replace('&str', "&'static str").replace('&u8', "&'static u8").replace('&W', "&'static W")))
            out.append("#[derive(Educe)] #[educe(Into(%s), Into(u16))] enum Ty { A { #[educe(Into(%s))] level: %s, weight: u16 }, B(u16, %s) }" % (
                ty, ty, ty.replace('&str', "&'static str").replace('&u8', "&'static u8").replace('&W', "&'static W"), ty.replace('&str', "&'static str").replace('&u8', "&'static u8").replace('&W', "&'static W")))
    # every group / partner configuration, and merged groups (many traits -> the trait map has many keys)
    for sh in K.xshapes('small' if tier == 'quick' else 'full'):
        per = {}
        for g in K.GROUPS:
            for partner in ([False, True] if g in K.PARTNER else [False]):
                cs = K.group_configs(g, sh, 'small', partner)
                if cs:
                    per[(g, partner)] = cs
                for c in cs:
                    out.append(K.render(sh, c))
        keys = sorted(per)
        for r in (2, 3, 5, len(keys)):
            for sub in itertools.combinations(keys, min(r, len(keys))):
                if len({g for g, _ in sub}) < len(sub):
                    continue
                if tier == 'quick' and r == 3 and shash(sub) % 4:
                    continue
                if r == 5 and shash(sub) % (9 if tier == 'quick' else 2):
                    continue
                cfg = K.merge([per[k][len(sub) % len(per[k])] for k in sub])
                out.append(K.render(sh, cfg, 'each' if r % 2 else 'one'))
        # nine to twelve traits on one item: one configuration per group, with / without the coupled partners, and with one group left out
        groups = sorted({g for g, _ in keys})
        for pmode in ('all', 'none', 'alt'):
            pick = []
            for gi, g in enumerate(groups):
                wantp = {'all': True, 'none': False, 'alt': bool(gi % 2)}[pmode]
                k = (g, wantp) if (g, wantp) in per else ((g, False) if (g, False) in per else (g, True))
                pick.append(k)
            for drop in [None] + (list(range(len(pick))) if pmode == 'all' else []):
                sub = [k for j, k in enumerate(pick) if j != drop]
                for rot in (0, 1):
                    cfg = K.merge([per[k][(len(sub) + rot) % len(per[k])] for k in sub])
                    out.append(K.render(sh, cfg, 'each' if rot else 'one'))
    # inputs whose handling consults names the templates use (state that could leak between expansions)
    for ident in ('__H', '__H_', 'H', 'T'):
        out.append('#[derive(Educe)] #[educe(Hash, Debug)] struct Ty<%s>(%s);' % (ident, ident))
        out.append('#[derive(Educe)] #[educe(Hash)] enum Ty<%s, const N: usize> { A(%s), B { x: [u8; N] } }' % (ident, ident))
    # enums that differ only in their explicit discriminants (same name, same variant count): anything remembered from one expansion shows in the next
    for nv in (2, 3, 4):
        pats = [list(range(1, nv + 1)), list(range(nv, 0, -1)), [((i + 1) % nv) * 10 for i in range(nv)], [-(i * i) - 1 for i in range(nv)], [5] + [None] * (nv - 1), [None] * (nv - 1) + [-9]]
        for ts in ('PartialEq, PartialOrd', 'PartialEq, Eq, PartialOrd, Ord', 'PartialEq, Eq, Ord'):
            for payload in (False, True):
                for pat in pats:
                    vs = ', '.join('V%d%s%s' % (i, ('(u8)' if payload and i % 2 == 0 else ''), '' if d is None else ' = %d' % d) for i, d in enumerate(pat))
                    out.append('#[derive(Educe)] %s#[educe(%s)] enum Ty { %s }' % ('#[repr(i8)] ' if payload else '', ts, vs))
    # wide tuple variants / tuple structs with one position ignored (or handled by a method), next to the same item with nothing ignored: anything remembered per
    # field position (binding names, ranks, indices) from one expansion shows in the next
    for width in (5, 6, 7, 11):
        for tl, ign in (('PartialEq', 'PartialEq(ignore)'), ('Hash', 'Hash(ignore)'), ('PartialEq, PartialOrd', 'PartialOrd(ignore)'), ('PartialEq, Eq, PartialOrd, Ord', 'Ord(ignore)'),
                        ('Debug', 'Debug(ignore)'), ('Clone', 'Clone(method(m))')):
            for pos in sorted({0, 3, 4, width - 2, width - 1, None}, key=lambda x: -1 if x is None else x):
                fs = ', '.join(('#[educe(%s)] u8' % ign) if k == pos else 'u8' for k in range(width))
                out.append('#[derive(Educe)] #[educe(%s)] enum Ty { V(%s), W }' % (tl, fs))
                POSFAM.append(out[-1])
                if width in (5, 7):
                    out.append('#[derive(Educe)] #[educe(%s)] struct Ty(%s);' % (tl, fs))
                    POSFAM.append(out[-1])
    seen, uniq = set(), []
    for t in out:
        if t not in seen:
            seen.add(t)
            uniq.append(t)
    return uniq


def schedule(n, variant=0):
    """history: every input first / after every other input / immediately repeated.  The processes do not all walk the corpus in the same
    direction: variant 0 forwards then backwards, 1 backwards then forwards, 2 / 3 the same starting a third / two thirds into the corpus,
    so that what a process has seen before it meets an input differs between processes as well"""
    fwd = list(range(n))
    if variant in (2, 3):
        k = (n * (variant - 1)) // 3
        fwd = fwd[k:] + fwd[:k]
    seq = fwd + fwd[::-1] if variant % 2 == 0 else fwd[::-1] + fwd
    for i in list(range(n))[::3]:
        seq += [i, i]
    return seq


def fingerprint(r):
    return (r['st'], r.get('raw'), r.get('msg'))


def fnv1a(s):
    h = 0xcbf29ce484222325
    for b in s.encode():
        h = ((h ^ b) * 0x100000001b3) & 0xffffffffffffffff
    return h


def hashed(fp):
    """the fingerprint as the driver reports it under --hash-raw"""
    st, raw, msg = fp
    if st == 'ok' and raw is not None:
        raw = '#%016x/%d' % (fnv1a(raw), len(raw.encode()))
    return (st, raw, msg)


def check(v, tier):
    binary = xp.build_xp()
    so = shim()
    inputs = corpus(tier)
    n = len(inputs)
    seqs = [schedule(n, k) for k in range(4)]
    seq = seqs[0]
    seeds = list(range(24 if tier == 'quick' else 96))
    canary_keys = ['u8,u16,u32', 'Debug,Clone,PartialEq,Hash'] * 4

    def run_seed(seed, full=False):
        env = dict(core.ENV)
        env['LD_PRELOAD'] = so
        env['VERIF_HASH_SEED'] = str(seed)
        sq = seqs[seed % 4]
        reqs = [('c%d' % k, 'h', ck) for k, ck in enumerate(canary_keys)] + [(str(k), 'x', inputs[i]) for k, i in enumerate(sq)]
        # the histories report expansions as hashes of their canonical token string (the comparison needs no more; the two reference runs are in full)
        res = xp.run_chunk(binary, reqs, env=env, args=() if full else ('--hash-raw',))
        return seed, [r['raw'] for r in res[:len(canary_keys)]], res[len(canary_keys):]

    # the shim must control the seed: same seed twice => same canary, different seeds => different orders
    a, b = run_seed(0, full=True), run_seed(0, full=True)
    guard(a[1] == b[1], 'seed shim: same seed gave different canary orders')
    # the reference for every input is its expansion *alone in a fresh process*: whatever an expansion remembers cannot have influenced it
    # (driver option --isolate: each request is served by a forked child of the still idle driver process; a sample is cross-checked against really separate processes)
    def alone(chunk):
        return [(i, fingerprint(r)) for i, r in zip(chunk, xp.run_chunk(binary, [(str(i), 'x', inputs[i]) for i in chunk], args=['--isolate']))]
    chunks = [list(range(s, min(n, s + 64))) for s in range(0, n, 64)]
    ref = {}
    with cf.ThreadPoolExecutor(max_workers=core.JOBS) as ex:
        for part in ex.map(alone, chunks):
            ref.update(part)
    sample = list(range(0, n, max(1, n // 40)))
    sep = {i: fingerprint(xp.run_chunk(binary, [('0', 'x', inputs[i])])[0]) for i in sample}
    v.notes['fresh_process_references'] = n
    v.notes['fresh_process_references_cross_checked_in_separate_processes'] = len(sample)
    bad = {}
    for i in sample:
        if sep[i] != ref[i]:
            bad[i] = ('separate process', -1, sep[i])     # two fresh processes disagree: the expansion depends on more than its input
    for pos, (i, r) in enumerate(zip(seq, a[2])):
        if fingerprint(r) != ref[i] and i not in bad:
            bad[i] = (0, pos, fingerprint(r))
    from .. import realmacro
    # the same inputs through the real macro inside rustc (another process, the compiler's own token backend, its own hash seed):
    # for this property a difference is not a harness problem but a violation — the expansion depends on something besides the input
    first = [a[2][seq.index(i)] for i in range(n)]
    nreal, mism = realmacro.bind(binary, inputs, first)
    v.notes['real_backend_conformance'] = {'inputs_expanded_inside_rustc': nreal, 'mismatches': len(mism)}
    for (i, r1, r2) in mism:
        if i not in bad:
            bad[i] = ('rustc process', -1, (r1, r2))
    if tier != 'quick':
        # the real macro inside rustc with the shim preloaded into the compiler: every seed must give the same expansion strings
        base = None
        for seed in range(12):
            env = dict(core.ENV)
            env['LD_PRELOAD'] = so
            env['VERIF_HASH_SEED'] = str(seed)
            out = realmacro.expand_in_rustc(inputs + inputs[::-1], env=env)
            fw, bw = out[:n], out[n:][::-1]
            if base is None:
                base = fw
            for i in range(n):
                v.cov['evaluations'] += 2
                if (fw[i] != base[i] or bw[i] != base[i]) and i not in bad:
                    bad[i] = (seed, i, ('real-backend', fw[i][:300], bw[i][:300]))
        v.notes['real_backend_seeds'] = 12
    ref_h = {i: hashed(fp) for i, fp in ref.items()}
    orders = [set(), set()]
    nonvac = sum(1 for i in range(n) if ref[i][0] == 'ok' and ref[i][1].count('impl') >= 2)
    with cf.ThreadPoolExecutor(max_workers=core.JOBS) as ex:
        for seed, canary, res in ex.map(run_seed, seeds):
            for k in range(len(canary_keys)):
                orders[k % 2].add(canary[k])
            for pos, (i, r) in enumerate(zip(seqs[seed % 4], res)):
                v.cov['evaluations'] += 1
                fp = fingerprint(r)
                if fp != ref_h[i] and i not in bad:
                    bad[i] = (seed, pos, fp)
    # two-step histories in a fresh process each: an item with one position ignored, then an item of the same kind and trait set with nothing ignored (of every width):
    # what the first expansion leaves behind is the *only* thing the second one can have seen (in the long histories a complete item usually comes first)
    idx = {t: i for i, t in enumerate(inputs)}
    fam = [t for t in POSFAM if t in idx]
    head = lambda t: t[:t.index(' Ty')]
    pairs = [(idx[a_], idx[b_]) for a_ in fam if a_.count('#[educe(') == 2 for b_ in fam if b_.count('#[educe(') == 1 and head(a_) == head(b_)]

    def run_pair(pr):
        env = dict(core.ENV)
        env['LD_PRELOAD'] = so
        env['VERIF_HASH_SEED'] = '0'
        return pr, xp.run_chunk(binary, [('0', 'x', inputs[pr[0]]), ('1', 'x', inputs[pr[1]])], env=env, args=('--hash-raw',))
    with cf.ThreadPoolExecutor(max_workers=core.JOBS) as ex:
        for pr, res in ex.map(run_pair, pairs):
            for k in (0, 1):
                v.cov['evaluations'] += 1
                fp = fingerprint(res[k])
                if fp != ref_h[pr[k]] and pr[k] not in bad:
                    bad[pr[k]] = ('pair history after input #%d' % pr[0], k, fp)
    v.notes['two_step_histories_in_fresh_processes'] = len(pairs)
    v.cov['states'] = n
    v.cov['transitions'] = len(seq) * len(seeds) + 2 * len(pairs)
    v.cov['traces_validated_against_impl'] = len(seq) * len(seeds) + 2 * len(pairs)
    v.cov['distinct_nontrivial'] = nonvac
    v.notes['canary_orders_observed'] = {canary_keys[0]: '%d of 6' % len(orders[0]), canary_keys[1]: '%d of 24' % len(orders[1])}
    v.notes['seeds'] = len(seeds)
    v.notes['history_positions_per_seed'] = len(seq)
    guard(len(orders[0]) == 6, 'the seeds explored did not produce all 6 orders of a 3-key map (%d)' % len(orders[0]))
    guard(len(orders[1]) >= (22 if tier == 'quick' else 24), 'the seeds explored produced only %d of 24 orders of a 4-key map' % len(orders[1]))
    for i, (seed, pos, fp) in sorted(bad.items()):
        case = Case('C16|%d|%s' % (i, inputs[i][:80].replace('\n', ' ')), inputs[i], {'input': inputs[i], 'seed': seed, 'history_position': pos}, run=False, depth=1)
        v.violation(case, 'expansion differs from the reference (the input expanded alone in a fresh process) under schedule (seed=%s, position %s in the history):\n reference: %s\n observed:  %s'
                    % (seed, pos, str(ref[i])[:400], str(fp)[:400]))
    for t in inputs[::max(1, n // 5)][:5]:
        v.sample({'input': t})
    return v.finish('corpus: every declaration order of 2..4 Into targets on three shapes with field-level markers, refused multi-target requests, every trait-group '
                    'configuration and merged groups of 2/3/5/all groups on the catalogue shapes, inputs naming template identifiers, items with nine to twelve traits, enums differing only in their explicit discriminants, wide tuple variants / tuple structs (5, 6, 7, 11 fields) with one position ignored or method-handled next to the complete item; schedule: hash seed s in 0..S (LD_PRELOAD '
                    'getrandom shim, verified per run: same seed => same canary order; S grown until canary maps showed 6/6 and 24/24 (quick >= 22/24) iteration orders), one '
                    'fresh process per seed, history = the whole corpus forwards then backwards (seeds = 0 mod 4), backwards then forwards (1 mod 4), or the same starting one / two thirds into the corpus (2, 3 mod 4), then every third input twice in a row; plus two-step histories, one fresh process each (an item with one position ignored, then a complete item of the same kind and trait set, every width); oracle: the reference of every input is its expansion alone in a fresh process; status, canonical token '
                    'string (item order included) and message identical to that reference at every position of every history; non-trivial = input expanding to >= 2 items',
                    {'bounds': {'seeds': len(seeds), 'tier': tier}})


def replay(path):
    """a C16 violation is a schedule / configuration of the whole exploration: the replay re-runs the quick exploration on the current tree"""
    import os
    os.environ['VERIF_EVIDENCE_DIR'] = os.path.join(core.BUILD, 'replay-evidence')
    return check(core.Verdict('C16', 'quick', 0), 'quick')
