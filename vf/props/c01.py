"""C01 — every accepted derive request expands to code that compiles; every documented form is accepted."""
import importlib
import itertools
import re

from ..core import Case, guard, rt_run, log, shash

TRAITS = ['Debug', 'Clone', 'Copy', 'PartialEq', 'Eq', 'PartialOrd', 'Ord', 'Hash', 'Default', 'Deref', 'DerefMut', 'Into']
NEEDS = {'Copy': ['Clone'], 'Eq': ['PartialEq'], 'PartialOrd': ['PartialEq'], 'Ord': ['PartialEq', 'Eq', 'PartialOrd'], 'DerefMut': ['Deref']}
HAND = {
    'Clone': 'impl{G} Clone for Ty{A} where {O} {{ fn clone(&self) -> Self {{ unreachable!() }} }}\n',
    'PartialEq': 'impl{G} PartialEq for Ty{A} where {O} {{ fn eq(&self, _: &Self) -> bool {{ true }} }}\n',
    'Eq': 'impl{G} Eq for Ty{A} where {O} Self: PartialEq {{}}\n',
    'PartialOrd': 'impl{G} PartialOrd for Ty{A} where {O} Self: PartialEq {{ fn partial_cmp(&self, _: &Self) -> Option<std::cmp::Ordering> {{ None }} }}\n',
    'Copy': 'impl{G} Copy for Ty{A} {W} {{}}\n',
}
# canonical shapes: id -> (declaration with {ATTRS}, markers per trait, generics decl, generics args, supported traits, hand Deref)
SHAPES = {
    'gstruct': ('{ATTRS}pub struct Ty<T> {{\n    {F0}pub f0: T,\n    {F1}pub f1: u8,\n}}\n', '<T>', '<T>', TRAITS, 'f1'),
    'genum': ('{ATTRS}pub enum Ty<T> {{\n    V0({F0}T, {F1}u8),\n    {VD}V1 {{ {F1}f0: u8, {F0}f1: T }},\n}}\n', '<T>', '<T>', TRAITS, None),
    'tstruct': ('{ATTRS}pub struct Ty<T>({F0}pub T, {F1}pub u8);\n', '<T>', '<T>', TRAITS, '1'),
    'unit': ('{ATTRS}pub struct Ty;\n', '', '', TRAITS[:9], None),
    'enum1': ('{ATTRS}pub enum Ty<T> {{\n    {VD}V0 {{ {F1}f0: u8, {F0}f1: T }},\n}}\n', '<T>', '<T>', TRAITS, None),
    'empty': ('{ATTRS}pub enum Ty {{}}\n', '', '', TRAITS[:8], None),
    'uenum': ('{ATTRS}pub enum Ty<T> {{\n    V0,\n    {VD}V1({F0}T),\n    V2 {{ f0: u8 }},\n}}\n', '<T>', '<T>', TRAITS[:9], None),
    'ltstruct': ("{ATTRS}pub struct Ty<'a, T: 'a + Copy, const CN: usize> where T: PartialEq {{\n    {F0}pub f0: &'a T,\n    {F1}pub f1: u8,\n    pub f2: [u8; CN],\n}}\n",
                 "<'a, T: 'a + Copy, const CN: usize>", "<'a, T, CN>", [t for t in TRAITS if t != 'Default'], 'f1'),
    'union': ('{ATTRS}pub union Ty {{\n    {VDF}pub f0: u8,\n    pub f1: u16,\n}}\n', '', '', ['Debug', 'Clone', 'Copy', 'PartialEq', 'Eq', 'Hash', 'Default'], None),
}


def subset_case(shape, subset):
    decl, gd, ga, supported, _ = SHAPES[shape]
    metas = []
    for t in subset:
        if t == 'Into':
            metas.append('Into(u8)')
        elif shape == 'union' and t in ('Debug', 'PartialEq', 'Hash'):
            metas.append('%s(unsafe)' % t)
        elif shape == 'empty' and t == 'Debug':
            metas.append('Debug = Ty')
        else:
            metas.append(t)
    k = len(subset)
    if k % 3 == 0:
        attrs = '#[educe(%s)]\n' % ', '.join(metas)
    elif k % 3 == 1:
        attrs = ''.join('#[educe(%s)]\n' % m for m in metas)
    else:
        attrs = '#[educe(%s)]\n' % ', '.join(reversed(metas))
    f1 = [t for t in ('Deref', 'DerefMut') if t in subset] + (['Into(u8)'] if 'Into' in subset else [])
    F1 = '#[educe(%s)] ' % ', '.join(f1) if f1 else ''
    VD = '#[educe(Default)] ' if 'Default' in subset else ''
    src = '#[derive(Educe)]\n' + decl.format(ATTRS=attrs, F0='', F1=F1, VD=VD, VDF=VD)
    where = ''
    for t in subset:
        for n in NEEDS.get(t, []):
            if n not in subset and n not in [x for x in where.split('|')]:
                where += '|' + n
    need = [n for n in where.split('|') if n]
    # hand-written partners for supertraits that are not educed (order matters for nothing)
    for n in ['PartialEq', 'Eq', 'PartialOrd', 'Clone']:
        if n in need:
            src += HAND[n].format(G=gd, A=ga, O='T: PartialEq,' if shape == 'ltstruct' else '')
    if shape == 'union' and 'Clone' in subset and 'Copy' not in subset:
        src += HAND['Copy'].format(G=gd, A=ga, W='')
    if 'DerefMut' in subset and 'Deref' not in subset:
        if shape in ('gstruct', 'ltstruct'):
            src += 'impl%s std::ops::Deref for Ty%s %s{ type Target = u8; fn deref(&self) -> &u8 { &self.f1 } }\n' % (gd, ga, 'where T: PartialEq ' if shape == 'ltstruct' else '')
        elif shape == 'tstruct':
            src += 'impl%s std::ops::Deref for Ty%s { type Target = u8; fn deref(&self) -> &u8 { &self.1 } }\n' % (gd, ga)
        elif shape == 'genum':
            src += 'impl%s std::ops::Deref for Ty%s { type Target = u8; fn deref(&self) -> &u8 { match self { Ty::V0(_, x) => x, Ty::V1 { f0, .. } => f0 } } }\n' % (gd, ga)
        elif shape == 'enum1':
            src += 'impl%s std::ops::Deref for Ty%s { type Target = u8; fn deref(&self) -> &u8 { match self { Ty::V0 { f0, .. } => f0 } } }\n' % (gd, ga)
    return Case('C01|traits|%s|%s' % (shape, '+'.join(subset)), src, {'shape': shape, 'traits': list(subset)}, expect='accept', run=False, depth=len(subset))


def exotic_cases():
    out = []
    allt = '#[educe(Debug, Clone, PartialEq, Eq, PartialOrd, Ord, Hash, Default)]\n'
    items = {
        'raw-idents': '#[derive(Educe)]\n{A}pub struct Ty {{ pub r#type: u8, pub r#match: u16, pub r#fn: u8 }}\n',
        'raw-variants': '#[derive(Educe)]\n{A}pub enum Ty {{ {VD}r#type {{ r#loop: u8 }}, r#match(u8), r#struct }}\n',
        'defaults': '#[derive(Educe)]\n{A}pub struct Ty<T = u8, const CN: usize = 2> {{ pub a: T, pub b: [u8; CN] }}\n',
        'lt-bounds': "#[derive(Educe)]\n{A}pub struct Ty<'a, 'b: 'a, T: 'a + ?Sized> where 'b: 'a {{ pub a: &'a u8, pub b: &'b u16, pub c: std::marker::PhantomData<&'a T> }}\n",
        'hrtb-where': "#[derive(Educe)]\n{A}pub struct Ty<F> where F: for<'x> Fn(&'x u8) -> &'x u8 {{ pub a: u8, pub f: std::marker::PhantomData<F> }}\n",
        'nested-generic': '#[derive(Educe)]\n{A}pub enum Ty<T, U> {{ {VD}A(Vec<Option<T>>, [U; 2]), B {{ x: (T, U), y: Box<(u8, T)> }} }}\n',
        'fnptr': '#[derive(Educe)]\n{A}pub struct Ty<T> {{ pub f: fn(T) -> T, pub g: Option<fn(&T)> }}\n',
        'all-ignored': '#[derive(Educe)]\n{A}pub struct Ty {{ #[educe(Debug(ignore), PartialEq(ignore), PartialOrd(ignore), Hash(ignore))] pub a: u8 }}\n',
        'empty-forms': '#[derive(Educe)]\n{A}pub enum Ty {{ {VD}A {{}}, B(), C }}\n',
        'tuple0': '#[derive(Educe)]\n{A}pub struct Ty();\n',
        'named0': '#[derive(Educe)]\n{A}pub struct Ty {{}}\n',
        'visibility': '#[derive(Educe)]\n{A}pub(crate) struct Ty {{ pub(crate) a: u8, b: u16, pub(super) c: u8 }}\n',
        # differently typed fields whose names differ by (the tail of) a binding prefix or equal a template local: a clash cannot type-check
        'prefix-names': '#[derive(Educe)]\n{A}pub struct Ty {{ pub x: u8, pub o_x: &\'static str, pub s_x: u16, pub d_x: bool, pub v_x: char, pub _x: i8, pub __x: i16, pub _s_x: i32, pub _o_x: i64 }}\n',
        'prefix-names-enum': '#[derive(Educe)]\n{A}pub enum Ty {{ {VD}A {{ x: u8, o_x: &\'static str, s_x: u16, d_x: bool, v_x: char, _x: i8, __x: i16, _s_x: i32, _o_x: i64 }}, B(u8, &\'static str) }}\n',
        'local-names-enum': '#[derive(Educe)]\n{A}pub enum Ty {{ {VD}A {{ f: u8, builder: &\'static str, arg: u16, state: bool, other: char, source: i8, educe__f: i16, data: i32, size: i64 }}, B {{ _0: u8, _1: &\'static str, __0: u16, __1: bool }} }}\n',
        'doc-attrs': '/// docs\n#[derive(Educe)]\n#[allow(dead_code)]\n{A}pub struct Ty {{ /// field doc\n #[allow(unused)] pub a: u8 }}\n',
    }
    sets = {'all': allt, 'Debug': '#[educe(Debug)]\n', 'Clone': '#[educe(Clone)]\n', 'CopyClone': '#[educe(Copy, Clone)]\n', 'PartialEq': '#[educe(PartialEq, Eq)]\n',
            'Ord': '#[educe(PartialEq, Eq, PartialOrd, Ord)]\n', 'PartialOrd': '#[educe(PartialEq, PartialOrd)]\n', 'Hash': '#[educe(Hash)]\n', 'Default': '#[educe(Default(new))]\n'}
    skip = {('all-ignored', 'all'), ('all-ignored', 'Ord'), ('fnptr', 'Default'), ('fnptr', 'all'), ('lt-bounds', 'Default'), ('lt-bounds', 'all'), ('nested-generic', 'CopyClone'),
            ('defaults', 'all')}
    for ik, it in items.items():
        for sk, a in sets.items():
            if (ik, sk) in skip:
                continue
            if ik == 'all-ignored':
                if sk != 'Debug':
                    continue
                a = '#[educe(Debug, PartialEq, PartialOrd, Hash)]\n'
            if ik == 'hrtb-where' and sk in ('all', 'Default'):
                a = a.replace(', Default', '')
                if sk == 'Default':
                    continue
            if ik == 'nested-generic' and sk == 'all':
                pass
            out.append(Case('C01|exotic|%s|%s' % (ik, sk), it.format(A=a, VD='#[educe(Default)] ' if 'Default' in a else ''), {'item': ik, 'traits': sk}, expect='accept', run=False, depth=2))
    # generic parameters named like the generic parameters the templates declare themselves (`H` for the hasher, `V` / `M` of the Debug method wrapper), on every kind of item
    gn_items = {
        'struct': 'pub struct Ty<H, V, M> {{ {A0}pub a: H, pub b: V, pub c: M }}',
        # (const parameters H and M only: the harness support module exports a type `V`, and a bare `V` in generic-argument position resolves to a type first)
        'struct-const': 'pub struct Ty<T, const H: usize, const M: usize> {{ {A0}pub a: T, pub b: [u8; H], pub c: [u16; M] }}',
        'enum': 'pub enum Ty<H, V, M> {{ {VD}A({A0}H, V), B {{ {A0}x: M }} }}',
        'enum-const': 'pub enum Ty<T, const H: usize, const M: usize> {{ {VD}A({A0}T, [u8; H]), B {{ x: [u8; M] }} }}',
        'union': 'pub union Ty<H: Copy, V: Copy, M: Copy> {{ pub a: H, {UD}pub b: V, pub c: M }}',
        'union-const': "pub union Ty<'a, T: Copy, const H: usize, const M: usize> {{ pub a: T, {UD}pub b: [u8; H], pub c: &'a [u8; M] }}",
    }
    gn_sets = {'Debug': ('Debug', 'Debug(method(fmt_any))'), 'Hash': ('Hash', 'Hash(method(hash_any))'), 'PartialEq': ('PartialEq, Eq', 'PartialEq(method(eq_any))'),
               'Ord': ('PartialEq, Eq, PartialOrd, Ord', 'Ord(method(cmp_any))'), 'Clone': ('Clone', 'Clone(method(clone_any))'), 'Default': ('Default(new)', 'Default(expression = make_any())')}
    gn_union_sets = {'Debug': 'Debug(unsafe)', 'Hash': 'Hash(unsafe)', 'PartialEq': 'PartialEq(unsafe), Eq', 'Clone': 'Copy, Clone', 'Default': 'Default(new)'}
    for ik, it in gn_items.items():
        for sk, (tl, fa) in gn_sets.items():
            for with_attr in (False, True):
                if ik.startswith('union'):
                    if sk not in gn_union_sets or with_attr:
                        continue
                    tl_ = gn_union_sets[sk]
                else:
                    tl_ = tl
                if ik.startswith('enum') and sk == 'Default' and with_attr:
                    continue        # (the field attribute would also sit in the variant that is not the default one)
                if 'const' in ik and sk == 'Default':
                    continue        # `[u8; H]: Default` holds for literal lengths only; the automatic bound makes the impl conditional, which is fine, but `new()` then needs it too
                src = '#[derive(Educe)]\n#[educe(%s)]\n%s\n' % (tl_, it.format(A0='#[educe(%s)] ' % fa if with_attr else '', VD='#[educe(Default)] ' if sk == 'Default' else '', UD='#[educe(Default)] ' if sk == 'Default' else ''))
                out.append(Case('C01|generic-names|%s|%s%s' % (ik, sk, '|attr' if with_attr else ''), src, {'item': ik, 'traits': tl_}, expect='accept', run=False, depth=2))
    # the extremes of isize as ranks, alone, before another parameter and before a trailing comma (a negative literal that is not the last token reaches the parser as a negation expression)
    for carrier, tl in (('PartialOrd', 'PartialEq, PartialOrd'), ('Ord', 'PartialEq, Eq, PartialOrd, Ord')):
        m = 'pcmp_any' if carrier == 'PartialOrd' else 'cmp_any'
        for k, (r0, r1) in enumerate((('rank = -9223372036854775808', 'rank = 9223372036854775807'), ('rank = -9223372036854775808, method(%s)' % m, 'rank = 9223372036854775807, method(%s)' % m),
                                      ('rank = -9223372036854775808,', 'rank = 9223372036854775807,'), ('method(%s), rank = -9223372036854775808' % m, 'rank(9223372036854775807), method(%s)' % m),
                                      ('rank(-9223372036854775808), method(%s)' % m, 'rank = "9223372036854775807"'), ('rank = "-9223372036854775808", method(%s)' % m, 'rank = 0x7fffffffffffffff, method(%s)' % m))):
            for ik, it in (('sn', 'pub struct Ty {{ {A0}pub a: u8, pub b: u8, {A1}pub c: u8 }}'), ('st', 'pub struct Ty({A0}pub u8, pub u8, {A1}pub u8);'),
                           ('en', 'pub enum Ty {{ A({A0}u8, u8, {A1}u8), B {{ {A0}x: u8, y: u8, {A1}z: u8 }} }}')):
                src = '#[derive(Educe)]\n#[educe(%s)]\n%s\n' % (tl, it.format(A0='#[educe(%s(%s))] ' % (carrier, r0), A1='#[educe(%s(%s))] ' % (carrier, r1)))
                out.append(Case('C01|rank-extremes|%s|%s|%d' % (carrier, ik, k), src, {'item': ik, 'ranks': [r0, r1]}, expect='accept', run=False, depth=2))
    # generic parameters in unconventional case on an item that allows the naming lints for itself (as the std derives do, the generated impls should inherit that)
    for ik, it in (('struct', 'pub struct Ty<param, const len_q: usize> { pub a: [param; len_q] }'), ('enum', 'pub enum Ty<param, const len_q: usize> { A(param), B { x: [u8; len_q] } }')):
        for sk, tl in (('Debug', 'Debug'), ('Clone', 'Clone'), ('PartialEq', 'PartialEq, Eq'), ('Ord', 'PartialEq, Eq, PartialOrd, Ord'), ('Hash', 'Hash')):
            src = ('#[warn(non_camel_case_types, non_upper_case_globals)]\npub mod w {\n    use educe::Educe;\n    #[allow(non_camel_case_types, non_upper_case_globals)]\n    #[derive(Educe)]\n    #[educe(%s)]\n    %s\n}\n' % (tl, it))
            out.append(Case('C01|param-case|%s|%s' % (ik, sk), src, {'item': ik, 'traits': tl, 'lints': 'allowed on the item, warn in the enclosing module'}, expect='accept', run=False, depth=2))
    # dynamically sized structs (the last field has a `?Sized` type): every trait that does not need `Self: Sized`, with the attribute forms that touch the tail
    un_items = {
        'generic': 'pub struct Ty<T: ?Sized> {{ {A0}pub a: u8, {A1}pub tail: T }}',
        'generic-tuple': 'pub struct Ty<T: ?Sized>({A0}pub u8, {A1}pub T);',
        'where': 'pub struct Ty<T> where T: ?Sized {{ {A0}pub a: u8, {A1}pub tail: T }}',
        'slice': 'pub struct Ty {{ {A0}pub a: u8, {A1}pub tail: [u8] }}',
        'str-tuple': 'pub struct Ty({A0}pub u8, {A1}pub str);',
        'dyn': 'pub struct Ty {{ {A0}pub a: u8, {A1}pub tail: dyn ::core::fmt::Debug }}',
        'nested': 'pub struct Ty<T: ?Sized> {{ {A0}pub a: u8, {A1}pub tail: (u8, T) }}',
    }
    un_sets = {
        'Debug': ('Debug', '', ''), 'Debug-noname': ('Debug(name = false)', '', ''), 'Debug-flip': ('Debug(named_field = {FLIP})', '', ''), 'Debug-rename': ('Debug(name = Other)', 'Debug(name = first)', 'Debug(name = last)'),
        'Debug-m0': ('Debug', 'Debug(method(fmt_any))', ''), 'Debug-m1': ('Debug', '', 'Debug(method(fmt_any))'), 'Debug-m01': ('Debug(name = false)', 'Debug(method(fmt_any))', 'Debug(method(fmt_any))'),
        'Debug-i1': ('Debug', '', 'Debug(ignore)'), 'Debug-unsafe-bound': ('Debug(bound(*))', '', ''),
        'PartialEq': ('PartialEq, Eq', '', ''), 'PartialEq-m1': ('PartialEq', '', 'PartialEq(method(eq_any))'), 'Ord': ('PartialEq, Eq, PartialOrd, Ord', 'Ord(rank = 1)', 'Ord(rank = 0)'),
        'PartialOrd': ('PartialEq, PartialOrd', '', 'PartialOrd(method(pcmp_any))'), 'Hash': ('Hash', '', ''), 'Hash-m1': ('Hash', 'Hash(ignore)', 'Hash(method(hash_any))'),
        'Deref': ('Deref, DerefMut', '', 'Deref, DerefMut'), 'most': ('Debug, PartialEq, Eq, PartialOrd, Ord, Hash, Deref', '', 'Deref'),
    }
    for ik, it in un_items.items():
        for sk, (tl, a0, a1) in un_sets.items():
            if ik == 'dyn' and not sk.startswith('Debug'):
                continue
            if ik == 'dyn' and sk == 'Debug-unsafe-bound':
                continue
            if ik == 'nested' and sk == 'Debug-unsafe-bound':
                continue        # `T: Debug` does not make `(u8, T)` Debug for an unsized T: the user's own bound would be insufficient
            if 'tuple' in ik and sk == 'Debug-rename':
                continue        # field names of tuple structs cannot be renamed
            tl_ = tl.replace('{FLIP}', 'false' if 'tuple' not in ik else 'true')
            src = '#[derive(Educe)]\n#[educe(%s)]\n%s\n' % (tl_, it.format(A0='#[educe(%s)] ' % a0 if a0 else '', A1='#[educe(%s)] ' % a1 if a1 else ''))
            out.append(Case('C01|unsized|%s|%s' % (ik, sk), src, {'item': ik, 'traits': tl_, 'field_attributes': [a0, a1]}, expect='accept', run=False, depth=2))
    # every bound mode of every trait on types whose generics mix lifetimes, type and const parameters (a bound mode must only ever speak about type parameters)
    gshapes = {
        'gs': "pub struct Ty<'a, T: Copy, const CN: usize, U = u8> { pub a: &'a T, pub b: [U; CN], {F}pub c: u8 }",
        'gt': "pub struct Ty<const CN: usize, T>(pub [T; CN], {F}pub u8);",
        'ge': "pub enum Ty<'a, const CN: usize, T: 'a> { {VD}A(&'a T, {F}u8), B { x: [u8; CN] }, C }",
        'gc': "pub struct Ty<const CN: usize, const FLAG: bool> { pub a: [u8; CN], {F}pub c: u8 }",
        'gu': "pub union Ty<T: Copy, const CN: usize> { {VD}pub a: [u8; CN], pub b: T }",
    }
    gsets = {'Debug': ['Debug({B})'], 'Clone': ['Clone({B})'], 'Copy': ['Copy', 'Clone({B})'], 'PartialEq': ['PartialEq({B})'], 'Eq': ['PartialEq({B})', 'Eq'],
             'PartialOrd': ['PartialEq({B})', 'PartialOrd({B})'], 'Ord': ['PartialEq({B})', 'Eq', 'PartialOrd', 'Ord({B})'], 'Hash': ['Hash({B})'], 'Default': ['Default({B})'],
             'Into': ['Into(u8, {B})'], 'Deref': ['Deref', 'DerefMut']}
    for gk, decl in gshapes.items():
        for sk, metas in gsets.items():
            union = gk == 'gu'
            if union and sk in ('PartialOrd', 'Ord', 'Into', 'Deref', 'Debug', 'PartialEq', 'Eq', 'Hash', 'Clone'):      # (byte-wise union impls take no bound)
                continue
            if gk == 'ge' and sk in ('Into', 'Deref'):
                continue     # (unit variant)
            for bk, b in (('star', 'bound(*)'), ('off', 'bound = false'), ('custom', 'bound(u8: Copy)'), ('string', 'bound = "u8: Copy,"')):
                if sk == 'Deref' and bk != 'star':
                    continue
                ms = [m.replace('{B}', b) for m in metas]
                if union:
                    ms = [m.replace('Debug(', 'Debug(unsafe, ').replace('PartialEq(', 'PartialEq(unsafe, ').replace('Hash(', 'Hash(unsafe, ') for m in ms]
                f = {'Into': '#[educe(Into(u8))] ', 'Deref': '#[educe(Deref, DerefMut)] '}.get(sk, '')
                vd = '#[educe(Default)] ' if sk == 'Default' else ''
                src = '#[derive(Educe)]\n%s%s\n' % (''.join('#[educe(%s)]\n' % m for m in ms), decl.replace('{F}', f).replace('{VD}', vd))
                if bk in ('off', 'custom', 'string') or sk == 'Default':
                    # without automatic bounds the impls need what the fields need: state it on the use site instead (the item only has to expand and type-check as an item
                    # when the bound is sufficient, which `bound(*)` is for these shapes); off / custom modes are checked for acceptance only
                    out.append(Case('C01|genbound|%s|%s|%s' % (gk, sk, bk), src, {'shape': gk, 'traits': sk, 'bound': b}, expect='accept-only', run=False, depth=2))
                else:
                    out.append(Case('C01|genbound|%s|%s|%s' % (gk, sk, bk), src, {'shape': gk, 'traits': sk, 'bound': b}, expect='accept', run=False, depth=2))
    # several Into targets, each taken from its own field through a conversion that exists for that pair only
    conv = [('String', "&\'static str"), ('u16', 'u8'), ('u64', 'u32'), ('W', 'u16'), ('Vec<u8>', "&'static [u8; 2]"), ('f64', 'f32')]
    for r in (2, 3, 4):
        for sub in itertools.combinations(conv, r):
            for perm in (sub, sub[::-1]):
                tl = ''.join('#[educe(Into(%s))]\n' % t for t, _ in perm)
                fs = ', '.join('#[educe(Into(%s))] f%d: %s' % (t, i, ft) for i, (t, ft) in enumerate(sub))
                tag = '+'.join(t for t, _ in perm)
                out.append(Case('C01|into-multi|struct|%s' % tag, '#[derive(Educe)]\n%spub struct Ty { %s }\n' % (tl, fs), {'targets': tag}, expect='accept', run=False, depth=r))
                out.append(Case('C01|into-multi|enum|%s' % tag, '#[derive(Educe)]\n%spub enum Ty { A { %s }, B(%s) }\n' % (tl, fs, fs.replace('f0: ', '').replace('f1: ', '').replace('f2: ', '').replace('f3: ', '')),
                                {'targets': tag}, expect='accept', run=False, depth=r))
    # #[repr] x discriminants on enums with every order-related trait
    reprs = [None, 'C', 'u8', 'i8', 'u16', 'i16', 'u32', 'i32', 'u64', 'i64', 'usize', 'isize', 'C, u8', 'align(2)', 'align(8), u16', 'u128', 'i128']
    bound = {'u8': '255', 'i8': '-128', 'u16': '65535', 'i16': '-32768', 'u32': '4294967295', 'i32': '-2147483648', 'u64': '18446744073709551615', 'i64': '-9223372036854775808',
             'usize': '18446744073709551615', 'isize': '-9223372036854775808', 'u128': '170141183460469231731687303715884105727', 'i128': '-170141183460469231731687303715884105728'}
    for r in reprs:
        it = None
        for p in (r or '').replace(' ', '').split(','):
            if p in bound:
                it = p
        for payload in (False, True):
            if payload and it is None and r not in (None, 'C', 'align(2)'):
                continue
            if not payload and r == 'C, u8':
                continue     # rustc refuses #[repr(C, inttype)] on a fieldless enum (deny-by-default lint conflicting_repr_hints)
            d0 = (' = %s' % bound[it]) if it else (' = -5' if not payload else '')
            if payload and it is None:
                d0 = ''
            src = '#[derive(Educe)]\n%s#[educe(Debug, Clone, PartialEq, Eq, PartialOrd, Ord, Hash, Default)]\npub enum Ty {\n    #[educe(Default)]\n    A%s%s,\n    B%s,\n    C%s,\n}\n' % (
                ('#[repr(%s)]\n' % r) if r else '', '(u8)' if payload else '', d0 if not (it and bound[it][0] != '-' ) else '', ' { x: u16 }' if payload else '',
                (' = %s' % bound[it]) if (it and bound[it][0] != '-') else '')
            out.append(Case('C01|repr|%s|%s' % (r, 'payload' if payload else 'unit'), src, {'repr': r, 'payload': payload}, expect='accept', run=False, depth=2))
    out.append(Case('C01|repr|transparent', '#[derive(Educe)]\n#[repr(transparent)]\n#[educe(Debug, Clone, PartialEq, Eq, PartialOrd, Ord, Hash, Default, Deref, DerefMut, Into(u8))]\npub struct Ty(pub u8);\n',
                    {'repr': 'transparent'}, expect='accept', run=False, depth=1))
    out.append(Case('C01|repr|transparent-enum', '#[derive(Educe)]\n#[repr(transparent)]\n#[educe(Debug, Clone, PartialEq, Eq, PartialOrd, Ord, Hash, Default, Deref, Into(u8))]\npub enum Ty { A(u8) }\n',
                    {'repr': 'transparent'}, expect='accept', run=False, depth=1))
    out.append(Case('C01|repr|C-struct', '#[derive(Educe)]\n#[repr(C, align(8))]\n#[educe(Debug, Clone, PartialEq, Eq, PartialOrd, Ord, Hash, Default)]\npub struct Ty { pub a: u8, pub b: u64 }\n',
                    {'repr': 'C, align(8)'}, expect='accept', run=False, depth=1))
    out.append(Case('C01|repr|C-union', '#[derive(Educe)]\n#[repr(C)]\n#[educe(Debug(unsafe), Copy, Clone, PartialEq(unsafe), Eq, Hash(unsafe), Default)]\npub union Ty { #[educe(Default)] pub a: u8, pub b: u64 }\n',
                    {'repr': 'C'}, expect='accept', run=False, depth=1))
    return out


BEHAVIOURAL = ['c02', 'c03', 'c04', 'c05', 'c06', 'c07', 'c08', 'c09', 'c10', 'c11', 'c20']


def generate(tier):
    cases = []
    shapes = ['gstruct', 'genum'] if tier == 'quick' else list(SHAPES)
    for sh in shapes:
        sup = SHAPES[sh][3]
        for r in range(1, len(sup) + 1):
            for sub in itertools.combinations(sup, r):
                if sh == 'union' and 'Copy' in sub and 'Clone' not in sub:
                    pass
                cases.append(subset_case(sh, sub))
    if tier == 'quick':
        for sh in ('tstruct', 'unit', 'enum1', 'empty', 'uenum', 'ltstruct', 'union'):
            sup = SHAPES[sh][3]
            for r in (1, 2, len(sup)):
                for sub in itertools.combinations(sup, r):
                    cases.append(subset_case(sh, sub))
    cases += exotic_cases()
    # the request spaces of the behavioural properties (type + oracle code, type-checked only)
    for m in BEHAVIOURAL:
        mod = importlib.import_module('vf.props.' + m)
        for c in mod.generate('quick'):
            if tier == 'quick' and c.depth > 3:
                continue
            if tier == 'quick' and c.depth == 3 and shash(c.key) % 2:
                continue        # every second state of the third deviation level (the owning checks run all of them)
            cases.append(Case('C01|%s' % c.key, c.body, c.spec, expect=c.expect, run=False, depth=c.depth))
    seen, out = set(), []
    for c in cases:
        if c.key not in seen:
            seen.add(c.key)
            out.append(c)
    return out


def check(v, tier):
    cases = generate(tier)
    res = rt_run(cases, run=False, name='C01', shard_size=475)
    v.add_states(cases)
    warn_free = 0
    for r in res:
        v.cov['evaluations'] += 1
        c = r.case
        if r.status == 'ok':
            v.cov['traces_validated_against_impl'] += 1
            # comparing fn pointers warns for #[derive(PartialEq)] of the standard library as well: it is a property of the user's field type
            # a derive may give its bindings the span of a user token (format_ident! with the field's span): such a diagnostic points into the user's text although
            # the name it complains about exists nowhere in it - it is about generated code
            def about_generated(d):
                if d['kind'] == 'generated':
                    return True
                names = re.findall(r'`([A-Za-z_][A-Za-z0-9_]*)`', d['msg'])
                return d['kind'] == 'hand' and d['code'] in ('non_snake_case', 'non_camel_case_types', 'non_upper_case_globals', 'unused_variables', 'unused_mut', 'unused_assignments') \
                    and bool(names) and not re.search(r'(?<![A-Za-z0-9_])%s(?![A-Za-z0-9_])' % re.escape(names[0]), c.body)
            gw = [d for d in r.warnings() if about_generated(d) and d['code'] != 'unpredictable_function_pointer_comparisons']
            if c.key.startswith('C01|param-case|'):
                # the item allows the naming lints for itself: whatever still warns about its parameter names comes from the generated impl headers
                gw += [d for d in r.warnings() if d not in gw and d['code'] in ('non_camel_case_types', 'non_upper_case_globals')]
            if gw:
                v.violation(c, 'the generated code compiles with warnings: %s' % '; '.join((d['code'] or '') + ' ' + d['msg'][:200] for d in gw[:2]))
            else:
                warn_free += 1
        elif r.status == 'educe_diag':
            if c.expect in ('accept', 'accept-only'):
                v.violation(c, 'a documented request on a supported shape is refused: %s' % '; '.join(d['msg'][:200] for d in r.errors() if d['kind'] == 'educe')[:400])
        elif r.status == 'panic':
            v.violation(c, 'the macro panicked: %s' % r.errors()[0]['msg'][:200])
        elif c.expect == 'accept-only':
            pass        # accepted by educe; whether an explicitly insufficient bound type-checks is the user's business
        else:
            v.violation(c, 'educe accepted the request but the generated code does not compile (%s): %s' % (r.status, '; '.join((d['code'] or '') + ' ' + d['msg'][:200] for d in r.errors()[:2])))
    v.cov['distinct_nontrivial'] = warn_free
    step = max(1, len(cases) // 8)
    for c in cases[::step][:8]:
        v.sample({'key': c.key, 'program': c.body[:1200]})
    if tier == 'quick':
        v.cap('quick tier: all 4095 trait subsets on two canonical shapes only (sizes 1, 2 and all on the other seven); behavioural request spaces restricted to at most three deviations from the plain derive (every second state of the third level)')
    guard(len(cases) > 8000, 'too few C01 states')
    return v.finish('(a) trait dimension: every non-empty subset of the 12 traits (of the traits a shape supports) on canonical shapes {generic struct, generic two-variant enum; thorough: + tuple struct, '
                    'unit struct, single-variant enum, empty enum, enum with unit variants, struct with lifetime / bounded type / const parameters and a where-clause, union}, with the markers each trait '
                    'needs and hand-written partners for supertraits that are not educed, in three attribute layouts; (b) attribute dimension: the complete request spaces of the checks for C02-C11 and '
                    'C20 (every shape x per-field attribute product x carrier x spelling x context enumerated there), type-checked together with their oracle code; (c) exotic shapes: raw identifiers, '
                    'defaulted parameters, lifetime bounds, higher-ranked where-clauses, nested generics, fn pointers, visibility and foreign attributes, empty variant forms, every #[repr] with boundary '
                    'discriminants.  Oracle: educe must not refuse a state of the documented space, and rustc must report no error and no warning attributed to the derive (--emit=metadata, default '
                    'lints); non-trivial = states that compile warning-free',
                    {'bounds': {'tier': tier}})
