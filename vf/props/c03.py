"""C03 — ordering is lexicographic over the non-ignored fields in rank order; PartialOrd agrees with Ord."""
import itertools
import re

from .. import shapes as S
from ..core import Case
from .common import place, CTX

MIN = -(1 << 63)


def split_top(text):
    """split a parameter list at top-level commas"""
    out, depth, cur = [], 0, ''
    for ch in text:
        if ch in '([{':
            depth += 1
        if ch in ')]}':
            depth -= 1
        if ch == ',' and depth == 0:
            out.append(cur)
            cur = ''
        else:
            cur += ch
    if cur.strip():
        out.append(cur)
    return out

# config -> (type-level trait list, carrier of the field attributes, has Ord, hand-written partners)
CFGS = {
    'PO': ('PartialOrd', 'PartialOrd', False),
    'O': ('Ord', 'Ord', True),
    'OP_O': ('PartialOrd, Ord', 'Ord', True),
    'OP_P': ('Ord, PartialOrd', 'PartialOrd', True),
}
IGN = ['{T}(ignore)', '{T} = false', '{T}(ignore = true)', '{T}(ignore(true))']


def rank_text(n, sp):
    if n < 0:
        return ['rank = %d', 'rank = "%d"', 'rank(%d)', 'rank("%d")'][sp % 4] % n
    return ['rank = %d', 'rank = "%d"', 'rank(%d)', 'rank("%d")'][sp % 4] % n


def method_name(ch, cfg):
    po = cfg == 'PO'
    if ch == 'm':
        return 'pcmp_asym_n' if po else 'cmp_asym'
    return 'pcmp_rev_n' if po else 'cmp_rev'


def field_meta(ch, rank, carrier, cfg, salt, order=None, comma=False, sp=None):
    """ch in c/i/m/l, rank None or int"""
    sp = salt % 4 if sp is None else sp
    order = (salt // 4) % 2 if order is None else order
    parts = []
    if ch == 'x':
        parts = ['ignore', 'method(%s)' % ('pcmp_poison' if cfg == 'PO' else 'cmp_poison')]
        if rank is not None:
            parts.append(rank_text(rank, sp))
    elif ch == 'i':
        if rank is None:
            return IGN[salt % len(IGN)].format(T=carrier)
        parts = ['ignore', rank_text(rank, sp)]
    elif ch in 'ml':
        m = method_name(ch, cfg)
        parts = ['method(%s)' % m if salt % 3 else 'method = "%s"' % m]
        if rank is not None:
            parts.append(rank_text(rank, sp))
    else:
        if rank is None:
            return None
        parts = [rank_text(rank, sp)]
    if order:
        parts.reverse()
    return '%s(%s%s)' % (carrier, ', '.join(parts), ',' if comma else '')


def term(ch, cfg, a, b):
    po = cfg == 'PO'
    if ch == 'c':
        return 'n_pcmp(%s, %s)' % (a, b) if po else 'Some(%s.0.cmp(&%s.0))' % (a, b)
    if ch == 'm':
        return 'pcmp_asym_n(%s, %s)' % (a, b) if po else 'Some(cmp_asym(%s, %s))' % (a, b)
    if ch == 'l':
        return 'pcmp_rev_n(%s, %s)' % (a, b) if po else 'Some(cmp_rev(%s, %s))' % (a, b)
    return None


def build(shape, focus, assign, ranks, cfg, ctx='alone', opts=None, tag=''):
    """shape: Shape; focus: variant index carrying the assignment; other variants are plain (all 'c').
    assign: string over c/i/m/l per focus field; ranks: tuple of None/int per focus field."""
    traits, carrier, has_ord = CFGS[cfg]
    po = cfg == 'PO'
    sc = 'N' if po else 'V'
    dom = ['N(0)', 'N(1)', 'N(9)'] if po else ['V(0)', 'V(1)', 'V(2)']
    if len(assign) >= 5:
        dom = ['N(0)', 'N(9)'] if po else ['V(0)', 'V(1)']
    probe12 = (0, 1, 9, 10, 11) if len(assign) >= 12 else None
    tys, fattrs, doms, plan = [], [], [], []
    salt = len(assign) * 7 + focus
    for vi, f in enumerate(shape.variants):
        t, a, d, pl = [], [], [], []
        for fi in range(f.n):
            if vi == focus:
                ch, rk = assign[fi], ranks[fi]
            else:
                ch, rk = 'c', None
            salt += 1 + (rk or 0) % 3
            o = opts or {}
            own = field_meta(ch, rk, carrier, cfg, salt, o.get('order'), o.get('comma', False), o.get('sp'))
            if own is None and o.get('explicit') and vi == focus:
                # a compared field that says so: `Trait = true`, `Trait(ignore = false)`, `Trait(ignore(false))`
                own = ['%s = true', '%s(ignore = false)', '%s(ignore(false))'][salt % 3] % carrier
            t.append('I' if ch in 'ix' else sc)
            a.append(place(own, 'Hash(ignore)', ctx))
            if probe12 and vi == focus and fi not in probe12 and ch not in 'ix':
                d.append([dom[0]])
            else:
                d.append(['I(0)', 'I(1)'] if ch in 'ix' else dom)
            pl.append((ch, rk if rk is not None else MIN + fi, fi))
        tys.append(t)
        fattrs.append(a)
        doms.append(d)
        plan.append(pl)
    if ctx != 'alone':
        traits = ('Hash, ' + traits) if ctx.endswith('before') else (traits + ', Hash')
    derives = 'Educe, Debug, PartialEq' + (', Eq' if has_ord else '')
    src = S.render_type(shape, ['#[educe(%s)]' % traits], tys, fattrs, derives=derives)
    if cfg == 'O':
        src += ('impl PartialOrd for Ty {\n    fn partial_cmp(&self, o: &Self) -> Option<Ordering> {\n'
                '        Some(Ord::cmp(self, o))\n    }\n}\n')
    src += 'use std::cmp::Ordering;\n'
    vals = S.all_values(shape, doms)
    src += 'fn values() -> Vec<Ty> {\n    vec![\n%s    ]\n}\n' % ''.join('        %s,\n' % v for v in vals)
    arms = []
    for vi, f in enumerate(shape.variants):
        pl = plan[vi]
        ab = ['_' if ch in 'ix' else 'a%d' % i for (ch, _, i) in pl]
        bb = ['_' if ch in 'ix' else 'b%d' % i for (ch, _, i) in pl]
        steps = [term(ch, cfg, 'a%d' % i, 'b%d' % i) for (ch, rk, i) in sorted(pl, key=lambda x: x[1]) if ch not in 'ix']
        arms.append('        (%s, %s) => lex(&[%s]),\n' % (S.pattern(shape, vi, ab), S.pattern(shape, vi, bb), ', '.join(steps)))
    if shape.kind == 'enum' and len(shape.variants) > 1:
        vidx = ''.join('            %s => %d,\n' % (S.pattern(shape, vi, ['_'] * f.n), vi) for vi, f in enumerate(shape.variants))
        src += 'fn vidx(x: &Ty) -> usize {\n    match x {\n%s    }\n}\n' % vidx.replace('            ', '        ')
        arms.append('        _ => Some(vidx(a).cmp(&vidx(b))),\n')
    src += 'fn model(a: &Ty, b: &Ty) -> Option<Ordering> {\n    match (a, b) {\n%s    }\n}\n' % ''.join(arms)
    lawful = 'm' not in assign
    src += 'pub fn check(r: &mut Rep) {\n    let vs = values();\n'
    src += '    ord_pairs(r, &vs, &|a, b| a.partial_cmp(b), %s, &model, &|a, b| (a < b, a <= b, a > b, a >= b));\n' % (
        'Some(&|a: &Ty, b: &Ty| a.cmp(b))' if has_ord else 'None')
    if lawful:
        src += '    ord_laws(r, &vs, &|a, b| a.cmp(b));\n' if has_ord else '    pord_laws(r, &vs, &|a, b| a.partial_cmp(b));\n'
    src += '}\n'
    depth = sum(1 for ch in assign if ch != 'c') + sum(1 for r_ in ranks if r_ is not None) + (0 if cfg in ('PO', 'O') else 1) \
        + (0 if ctx == 'alone' else 1)
    rk = ','.join('d' if r_ is None else str(r_) for r_ in ranks)
    key = 'C03|%s|%s@%d|%s|%s%s%s' % (cfg, shape.code(), focus, assign, rk, '' if ctx == 'alone' else '|' + ctx, tag)
    spec = {'cfg': cfg, 'shape': shape.code(), 'focus': focus, 'assign': assign, 'ranks': list(ranks), 'ctx': ctx,
            'values': len(vals)}
    return Case(key, src, spec, expect='accept', run=True, depth=depth)


def placements(fl, tier):
    """shapes that put the focus field list `fl` at various places"""
    U, T1 = S.Fields('u'), S.Fields('t', 1)
    out = [(S.Shape('struct', [fl]), 0), (S.Shape('enum', [fl, U]), 0), (S.Shape('enum', [T1, fl]), 1)]
    if tier != 'quick':
        out += [(S.Shape('enum', [fl]), 0), (S.Shape('enum', [U, fl, T1]), 1)]
    return out


def rank_assignments(n, rset):
    for rk in itertools.product(rset, repeat=n):
        ex = [r for r in rk if r is not None]
        if len(ex) == len(set(ex)):
            yield rk


def generate(tier):
    cases = []
    full = [(1, 'cimlx', (None, -1, 0, 1)), (2, 'ciml', (None, -1, 0, 1)), (2, 'cx', (None, 1))]
    if tier != 'quick':
        full.append((3, 'cim', (None, -1, 1)))
    else:
        full.append((3, 'cm', (None, -1)))
    for n, alph, rset in full:
        for style in 'tn':
            fl = S.Fields(style, n)
            for shape, focus in placements(fl, tier):
                for assign in itertools.product(alph, repeat=n):
                    assign = ''.join(assign)
                    for ranks in rank_assignments(n, rset):
                        for cfg in CFGS:
                            if tier == 'quick' and n >= 2 and cfg in ('O',):
                                continue     # Ord with a hand-written PartialOrd runs the same handler as OP_O; kept for n = 1 and in the thorough tier
                            cases.append(build(shape, focus, assign, ranks, cfg))
    # compared fields that carry the explicit "not ignored" spellings
    for n in (1, 2, 3):
        for style in 'tn':
            for shape, focus in placements(S.Fields(style, n), tier):
                for assign in itertools.product('ci', repeat=n):
                    assign = ''.join(assign)
                    if 'c' not in assign:
                        continue
                    for cfg in CFGS:
                        for k in range(3):
                            cases.append(build(shape, focus, assign, (None,) * n, cfg, opts={'explicit': True}, tag='|explicit%d' % k) if k == 0 else None)
    cases = [c for c in cases if c is not None]
    # wide elements: 5 fields, at most two fields deviating in (status, rank) from the plain derive; focus variant at index 3 of 5
    U, T1 = S.Fields('u'), S.Fields('t', 1)
    for style in 'tn':
        fl = S.Fields(style, 5)
        wide = [(S.Shape('struct', [fl]), 0), (S.Shape('enum', [U, T1, U, fl, T1]), 3)]
        devs = [(ch, rk) for ch in 'cimlx' for rk in (None, -1, 3) if (ch, rk) != ('c', None)]
        for shape, focus in wide:
            for r in (0, 1, 2):
                for where in itertools.combinations(range(5), r):
                    small = [('i', None), ('m', None), ('c', -1), ('c', 3), ('l', 3)]
                    for combo in itertools.product(devs if (r < 2 or tier != 'quick') else small, repeat=r):
                        assign = ['c'] * 5
                        ranks = [None] * 5
                        for w, (ch, rk) in zip(where, combo):
                            assign[w], ranks[w] = ch, rk
                        ex = [x for x in ranks if x is not None]
                        if len(ex) != len(set(ex)):
                            continue
                        for cfg in (('PO', 'OP_P') if tier == 'quick' else CFGS):
                            cases.append(build(shape, focus, ''.join(assign), tuple(ranks), cfg, tag='|wide'))
    # very wide: 12 fields, one deviating field at positions 0, 1, 9, 10, 11
    for style in 'tn':
        fl = S.Fields(style, 12)
        for shape, focus in ((S.Shape('struct', [fl]), 0), (S.Shape('enum', [S.Fields('u'), fl]), 1)):
            for w in (0, 1, 9, 10, 11):
                for ch, rk in (('i', None), ('m', None), ('c', -1), ('c', 5), ('l', 5), ('x', None)):
                    assign = ['c'] * 12
                    ranks = [None] * 12
                    assign[w], ranks[w] = ch, rk
                    for cfg in ('PO', 'OP_O'):
                        cases.append(build(shape, focus, ''.join(assign), tuple(ranks), cfg, tag='|vwide'))
    # degenerate siblings around the focus variant: zero-field tuple / struct variants before and after it (flags computed per variant must not leak)
    T0, N0, U_ = S.Fields('t', 0), S.Fields('n', 0), S.Fields('u')
    for style in 'tn':
        for n in (1, 2):
            fl = S.Fields(style, n)
            for sibs, focus in (([fl, T0], 0), ([fl, N0], 0), ([T0, fl], 1), ([N0, fl], 1), ([fl, T0, U_], 0), ([U_, fl, N0, T0], 1), ([S.Fields('t', 1), fl, T0], 1)):
                for assign in itertools.product('cim', repeat=n):
                    for cfg in CFGS:
                        cases.append(build(S.Shape('enum', sibs), focus, ''.join(assign), (None,) * n, cfg, tag='|degenerate-siblings'))
    # extreme explicit ranks next to unranked fields (the default rank of field i is the smallest value + i: explicit ranks order after all of them)
    for style in 'tn':
        for n in (2, 3):
            fl = S.Fields(style, n)
            for shape, focus in placements(fl, 'quick')[:2]:
                for w in range(n):
                    for rk in (-2147483649, -4294967296, -9223372036854775800, 9223372036854775807, 2147483648, -2147483648):
                        ranks = [None] * n
                        ranks[w] = rk
                        for cfg in CFGS:
                            cases.append(build(shape, focus, 'c' * n, tuple(ranks), cfg, tag='|extreme-rank'))
    # spelling x parameter order x trailing comma, fully, on one- and two-field elements
    for style in 'tn':
        for shape, focus in placements(S.Fields(style, 2), 'quick')[:2]:
            for ch in 'cmli':
                for rk in (-1, 1, -2):
                    for sp in range(4):
                        for order in (0, 1):
                            for comma in (False, True):
                                for cfg in ('PO', 'OP_P') if tier == 'quick' else CFGS:
                                    cases.append(build(shape, focus, ch + 'c', (rk, 0), cfg,
                                                       opts={'sp': sp, 'order': order, 'comma': comma},
                                                       tag='|sp%d%d%d' % (sp, order, comma)))
    # explicit `ignore = false` / `ignore(false)` at every position of the parameter list
    for style in 'tn':
        for shape, focus in placements(S.Fields(style, 2), 'quick')[:2]:
            for ch in 'cml':
                for rk in (None, 1, -1):
                    if ch == 'c' and rk is None:
                        continue
                    for cfg in CFGS:
                        for pos in range(3):
                            for sp_ in ('ignore = false', 'ignore(false)'):
                                c = build(shape, focus, ch + 'c', (rk, 0), cfg, opts={'sp': pos, 'order': 0, 'comma': False}, tag='|notign%d%s' % (pos, sp_[6]))
                                # splice the explicit parameter into the focus field's attribute
                                m = re.search(r'#\[educe\((PartialOrd|Ord)\(([^\n]*)\)\)\]', c.body)
                                parts = [x.strip() for x in split_top(m.group(2))]
                                parts.insert(min(pos, len(parts)), sp_)
                                c.body = c.body[:m.start()] + '#[educe(%s(%s))]' % (m.group(1), ', '.join(parts)) + c.body[m.end():]
                                cases.append(c)
    # attribute context
    for style in 'tn':
        for shape, focus in placements(S.Fields(style, 2), 'quick'):
            for assign in ('ci', 'mc', 'im', 'cc'):
                for ranks in ((None, None), (1, -1)):
                    for ctx in CTX[1:]:
                        for cfg in ('PO', 'OP_O', 'OP_P'):
                            cases.append(build(shape, focus, assign, ranks, cfg, ctx=ctx))
    # field names that differ by the prefixes the templates use for their bindings (x, _x, __x, ...), and raw identifiers
    from .common import zoo_cases
    from .common import unsized_cases
    cases += unsized_cases('C03') + unsized_cases('C03', 'C03p')
    zc = '''    for (i, (a, ta)) in vs.iter().enumerate() {
        for (j, (b, tb)) in vs.iter().enumerate() {
            r.ck(a.partial_cmp(b) == ta.partial_cmp(tb), 0, &|| format!("values #{} and #{}: partial_cmp gives {:?}, #[derive(PartialOrd)] gives {:?}", i, j, a.partial_cmp(b), ta.partial_cmp(tb)));
            CMP
            r.ck((a < b, a <= b, a > b, a >= b) == (ta < tb, ta <= tb, ta > tb, ta >= tb), 2, &|| format!("values #{} and #{}: operators disagree with the standard derive", i, j));
        }
    }
'''
    cases += zoo_cases('C03|PO', 'PartialOrd', 'Debug, Clone, PartialEq', 'Debug, Clone, PartialEq, PartialOrd', zc.replace('CMP', ''))
    cases += zoo_cases('C03|OP', 'PartialOrd, Ord', 'Debug, Clone, PartialEq, Eq', 'Debug, Clone, PartialEq, Eq, PartialOrd, Ord',
                       zc.replace('CMP', 'r.ck(a.cmp(b) == ta.cmp(tb), 1, &|| format!("values #{} and #{}: cmp gives {:?}, #[derive(Ord)] gives {:?}", i, j, a.cmp(b), ta.cmp(tb)));'))
    cases += zoo_cases('C03|PO|zm', 'PartialOrd', 'Debug, Clone, PartialEq', 'Debug, Clone, PartialEq, PartialOrd', zc.replace('CMP', ''), z_attr='PartialOrd(method(zoo_m_pcmp))')
    cases += zoo_cases('C03|PO|zi', 'PartialOrd', 'Debug, Clone, PartialEq', 'Debug, Clone, PartialEq, PartialOrd', zc.replace('CMP', ''), ign_attr='PartialOrd(ignore)')
    # (with both order traits educed the field takes one attribute, which both impls follow)
    cases += zoo_cases('C03|OP|zm', 'PartialOrd, Ord', 'Debug, Clone, PartialEq, Eq', 'Debug, Clone, PartialEq, Eq, PartialOrd, Ord', zc.replace('CMP', 'r.ck(a.cmp(b) == ta.cmp(tb), 1, &|| format!("values #{} and #{}: cmp gives {:?}, #[derive(Ord)] gives {:?}", i, j, a.cmp(b), ta.cmp(tb)));'), z_attr='Ord(method(zoo_m_cmp))')
    cases += zoo_cases('C03|OP|zi', 'PartialOrd, Ord', 'Debug, Clone, PartialEq, Eq', 'Debug, Clone, PartialEq, Eq, PartialOrd, Ord', zc.replace('CMP', 'r.ck(a.cmp(b) == ta.cmp(tb), 1, &|| format!("values #{} and #{}: cmp gives {:?}, #[derive(Ord)] gives {:?}", i, j, a.cmp(b), ta.cmp(tb)));'), ign_attr='Ord(ignore)')
    from .common import underscorify, rawify
    named = [x for x in cases if ':n' in x.key or '|n' in x.key]
    for c in named[::5]:
        from .common import localsify
        for tr in (underscorify, rawify, lambda c_: localsify(c_, 0), lambda c_: localsify(c_, 1), lambda c_: localsify(c_, 2)):
            r_ = tr(c)
            if r_:
                cases.append(r_)
    from .common import decoy_layer
    cases += decoy_layer([c for c in cases if c is not None])
    seen, out = set(), []
    for c in cases:
        if c.key not in seen:
            seen.add(c.key)
            out.append(c)
    return out


RULE = ('wide elements (5 fields, focus variant 4th of 5) with at most two deviating fields; focus element (struct, or a variant placed first/middle/last among plain sibling variants) with F fields x full '
        'product of {compared, ignored (type whose comparisons panic), method (asymmetric), method (lawful)} x rank in '
        '{default, -1, 0, 1} per field without collisions x trait configuration {PartialOrd; Ord with hand PartialOrd; both '
        'with attributes on Ord(..); both with attributes on PartialOrd(..)}; additionally rank spelling x parameter order '
        'x trailing comma in full on small elements, and attribute contexts; per program all ordered pairs over {0,1,2} '
        '(PartialOrd-only: {0,1,incomparable}) against the lexicographic rank-order model, partial_cmp == Some(cmp), '
        'operator consistency, order laws on all triples when every method is lawful; non-trivial = at least 3 distinct results')


def check(v, tier):
    from .common import run_behavioural
    cases = generate(tier)
    run_behavioural(v, cases, 'C03', nontrivial_min=3)
    return v.finish(RULE, {'bounds': {'fields': 3, 'rank_values': [-2, -1, 0, 1], 'tier': tier}})
