"""C14 — alternative attribute spellings are interchangeable (engine XP)."""
import itertools

from .. import catalog as K
from .. import xp
from ..core import Case, guard


class P:
    """one parameter instance with all its documented spellings (sp[0] is the reference spelling);
    a spelling of None means "parameter absent" (documented default)"""

    def __init__(self, name, sp):
        self.name = name
        self.sp = sp


class M:
    """one trait meta at one position: Trait(params...), plus whole-meta shorthands; pin = index of a parameter
    that must stay first (`unsafe`)"""

    def __init__(self, trait, params=(), whole=(), pin=False):
        self.trait = trait
        self.params = list(params)
        self.whole = list(whole)
        self.pin = pin

    def render(self, choice=None, order=None, delim='()'):
        """choice: {param index: spelling index}; order: permutation of param indices"""
        choice = choice or {}
        idx = list(order) if order is not None else list(range(len(self.params)))
        parts = []
        for i in idx:
            t = self.params[i].sp[choice.get(i, 0)]
            if t is not None:
                parts.append(t)
        if not parts:
            return self.trait
        return '%s(%s)' % (self.trait, ', '.join(parts))


def sp_name(x, off=False, on=False):
    if off:
        return ['name = false', 'name(false)', 'name = ""', 'name("")', 'rename = false', 'rename(false)', 'rename = ""']
    if on:
        return ['name = true', 'name(true)', 'rename = true', 'rename(true)']
    return ['name = %s' % x, 'name(%s)' % x, 'name = "%s"' % x, 'name("%s")' % x, 'rename = %s' % x, 'rename(%s)' % x,
            'rename = "%s"' % x, 'rename("%s")' % x]


def sp_bool(p, b):
    t = 'true' if b else 'false'
    return ['%s = %s' % (p, t), '%s(%s)' % (p, t)]


def sp_flag(p):
    return [p, '%s = true' % p, '%s(true)' % p]


def sp_notflag(p):
    return [None, '%s = false' % p, '%s(false)' % p]


def sp_method(path):
    return ['method(%s)' % path, 'method("%s")' % path, 'method = "%s"' % path, 'method = %s' % path]


def sp_rank(n):
    out = ['rank = %d' % n, 'rank(%d)' % n, 'rank = "%d"' % n, 'rank("%d")' % n]
    # every notation of the same integer literal, in both the name-value and the list form
    sign, a = ('-', -n) if n < 0 else ('', n)
    for lit in ('%s0x%x' % (sign, a), '%s0b%s' % (sign, bin(a)[2:]), '%s0o%o' % (sign, a), '%s%disize' % (sign, a), '%s%d_' % (sign, a), '%s0_%d' % (sign, a)):
        out += ['rank = %s' % lit, 'rank(%s)' % lit]
    return out


def sp_bound(preds):
    j = ', '.join(preds)
    return ['bound(%s)' % j, 'bound = "%s"' % j, 'bound("%s")' % j, 'bound(%s,)' % j, 'bound = "%s,"' % j, 'bound("%s ,")' % j, 'bound = "\n    %s,\n"' % ',\n    '.join(preds)]


SP_BOUND_OFF = ['bound = false', 'bound(false)', 'bound = ""', 'bound("")']
SP_BOUND_AUTO = [None, 'bound = true', 'bound(true)']


def sp_expr(e):
    return ['expression = %s' % e, 'expression(%s)' % e, 'expr = %s' % e, 'expr(%s)' % e]


class Scenario:
    def __init__(self, key, shape, tl, v=None, f=None, ftypes=None):
        self.key = key
        self.shape = shape
        self.tl = tl            # list of M at type level
        self.v = v or {}        # vi -> [M]
        self.f = f or {}        # (vi, fi) -> [M]
        self.ftypes = ftypes or {}

    def positions(self):
        out = [('t', None, self.tl)]
        out += [('v', k, ms) for k, ms in sorted(self.v.items())]
        out += [('f', k, ms) for k, ms in sorted(self.f.items())]
        return out

    def render(self, metas_text=None, layout=None):
        """metas_text: {(pos kind, pos key, meta index): text}; layout: {(pos kind, pos key): list of lists of meta indices}
        (each inner list is one #[educe(..)] attribute)"""
        metas_text = metas_text or {}
        layout = layout or {}
        cfg = K.Config(self.key)

        def lines(kind, key, ms):
            texts = [metas_text.get((kind, key, i), m.render()) for i, m in enumerate(ms)]
            lay = layout.get((kind, key), [list(range(len(ms)))])
            return [', '.join(texts[i] for i in grp) for grp in lay if grp]
        cfg.traits = lines('t', None, self.tl)
        for k, ms in self.v.items():
            cfg.v[k] = lines('v', k, ms)
        for k, ms in self.f.items():
            cfg.f[k] = lines('f', k, ms)
        cfg.ftypes = self.ftypes
        return K.render(self.shape, cfg, split='each')


def partitions(items):
    """all ordered set partitions of a list into consecutive-order-preserving groups plus permutations (<= 3 items)"""
    n = len(items)
    out = []
    for perm in itertools.permutations(items):
        for cuts in itertools.product([0, 1], repeat=n - 1):
            groups, cur = [], [perm[0]]
            for c, it in zip(cuts, perm[1:]):
                if c:
                    groups.append(cur)
                    cur = [it]
                else:
                    cur.append(it)
            groups.append(cur)
            out.append(groups)
    return out


def scenarios(tier):
    S = K.XShape
    sn = S('struct', [('n', 2)], '<T>', '', ftypes={(0, 0): 'T', (0, 1): 'u8'})
    st = S('struct', [('t', 2)], '<T>', '', ftypes={(0, 0): 'T', (0, 1): 'u8'})
    en = S('enum', [('t', 2), ('n', 2)], '<T>', '', ftypes={(0, 0): 'T', (0, 1): 'u8', (1, 0): 'u8', (1, 1): 'T'})
    un = S('union', [('n', 2)])
    out = []

    def add(key, shape, tl, v=None, f=None, ftypes=None):
        out.append(Scenario(key, shape, tl, v, f, ftypes))

    # ---- Debug
    for shape, tag in ((sn, 'sn'), (st, 'st'), (en, 'en')):
        enum = shape.kind == 'enum'
        named_default = shape.variants[0][0] == 'n'
        add('Debug/name/' + tag, shape, [M('Debug', [P('name', sp_name('Zz')), P('bound', SP_BOUND_AUTO)], whole=['Debug = Zz', 'Debug = "Zz"'])])
        if not enum:
            add('Debug/off/' + tag, shape, [M('Debug', [P('name', sp_name(None, off=True))])])
            add('Debug/nf/' + tag, shape, [M('Debug', [P('nf', sp_bool('named_field', not named_default)), P('name', sp_name('Zz'))])])
            add('Debug/nfsame/' + tag, shape, [M('Debug', [P('nf', [None] + sp_bool('named_field', named_default))])])
        else:
            add('Debug/on/' + tag, shape, [M('Debug', [P('name', sp_name(None, on=True))])])
            add('Debug/offdefault/' + tag, shape, [M('Debug', [P('name', [None] + sp_name(None, off=True))])])
            add('Debug/variant/' + tag, shape, [M('Debug')], v={0: [M('Debug', [P('name', sp_name('Vv'))], whole=['Debug = Vv', 'Debug = "Vv"'])],
                                                                  1: [M('Debug', [P('nf', sp_bool('named_field', False)), P('name', sp_name(None, off=True))])]})
            add('Debug/variant2/' + tag, shape, [M('Debug', [P('name', sp_name(None, on=True))])],
                v={0: [M('Debug', [P('nf', sp_bool('named_field', True))])], 1: [M('Debug', [P('name', sp_name(None, off=True))])]})
        add('Debug/bound/' + tag, shape, [M('Debug', [P('bound', sp_bound(['T: ::core::fmt::Debug', 'u8: Copy'])), P('name', sp_name('Zz'))])])
        add('Debug/boundoff/' + tag, shape, [M('Debug', [P('bound', SP_BOUND_OFF)])])
        # predicates whose bounded type does not begin with an identifier (`*const T`, a reference, an array, a tuple, a fn pointer), first in the list and later in it
        for li, lead in enumerate(['*const T: Copy', '*mut u8: Copy', "&'static u8: Copy", '[u8; 2]: Copy', '(u8, u16): Copy', 'fn(u8) -> u8: Copy']):
            add('Debug/bound-lead%d/%s' % (li, tag), shape, [M('Debug', [P('bound', sp_bound([lead, 'T: ::core::fmt::Debug']))])])
            add('Debug/bound-late%d/%s' % (li, tag), shape, [M('Debug', [P('bound', sp_bound(['T: ::core::fmt::Debug', lead]))])])
        # fields
        for pos in ((0, 0), (len(shape.variants) - 1, 1)):
            is_named = shape.variants[pos[0]][0] == 'n'
            add('Debug/f-ignore/%s%s' % (tag, pos), shape, [M('Debug')], f={pos: [M('Debug', [P('ignore', sp_flag('ignore'))], whole=['Debug = false'])]})
            add('Debug/f-notignore/%s%s' % (tag, pos), shape, [M('Debug')], f={pos: [M('Debug', [P('ignore', sp_notflag('ignore')[1:])], whole=['Debug = true'])]})
            add('Debug/f-method/%s%s' % (tag, pos), shape, [M('Debug')], f={pos: [M('Debug', [P('method', sp_method('fmt_m')), P('ignore', sp_notflag('ignore'))])]})
            if is_named:
                add('Debug/f-name/%s%s' % (tag, pos), shape, [M('Debug')], f={pos: [M('Debug', [P('name', sp_name('kk'))], whole=['Debug = kk', 'Debug = "kk"'])]})
                add('Debug/f-name-method/%s%s' % (tag, pos), shape, [M('Debug')],
                    f={pos: [M('Debug', [P('name', sp_name('kk')), P('method', sp_method('a::b::fmt_m')), P('ignore', sp_notflag('ignore'))])]})
    add('Debug/union', un, [M('Debug', [P('unsafe', ['unsafe']), P('name', sp_name('Zz'))], pin=True)])
    add('Debug/union-off', un, [M('Debug', [P('unsafe', ['unsafe']), P('name', sp_name(None, off=True))], pin=True)])

    # ---- PartialEq / Eq / Hash (ignore, method, bound)
    for trait, meth in (('PartialEq', 'eq_m'), ('Hash', 'hash_m')):
        for shape, tag in ((sn, 'sn'), (st, 'st'), (en, 'en')):
            for pos in ((0, 0), (len(shape.variants) - 1, 1)):
                add('%s/f-ignore/%s%s' % (trait, tag, pos), shape, [M(trait)], f={pos: [M(trait, [P('ignore', sp_flag('ignore'))], whole=[trait + ' = false'])]})
                add('%s/f-notignore/%s%s' % (trait, tag, pos), shape, [M(trait)], f={pos: [M(trait, [P('ignore', sp_notflag('ignore')[1:])], whole=[trait + ' = true'])]})
                add('%s/f-method/%s%s' % (trait, tag, pos), shape, [M(trait)], f={pos: [M(trait, [P('method', sp_method(meth)), P('ignore', sp_notflag('ignore'))])]})
            add('%s/bound/%s' % (trait, tag), shape, [M(trait, [P('bound', sp_bound(['T: Copy']))])])
            add('%s/boundoff/%s' % (trait, tag), shape, [M(trait, [P('bound', SP_BOUND_OFF)])])
            add('%s/boundauto/%s' % (trait, tag), shape, [M(trait, [P('bound', SP_BOUND_AUTO)])])
    for shape, tag in ((sn, 'sn'), (en, 'en')):
        pos = (0, 1)
        add('Eq/carrier-ignore/' + tag, shape, [M('PartialEq'), M('Eq')], f={pos: [M('Eq', [P('ignore', sp_flag('ignore'))], whole=['Eq = false'])]})
        add('Eq/carrier-method/' + tag, shape, [M('Eq'), M('PartialEq', [P('bound', sp_bound(['T: PartialEq']))])], f={pos: [M('PartialEq', [P('method', sp_method('eq_m'))])]})
    add('PartialEq/union', un, [M('PartialEq', [P('unsafe', ['unsafe'])], pin=True), M('Eq'), M('Hash', [P('unsafe', ['unsafe'])], pin=True)])

    # ---- PartialOrd / Ord (ignore, method, rank incl. negative, bound)
    for cfg, carrier in ((['PartialOrd'], 'PartialOrd'), (['Ord'], 'Ord'), (['PartialOrd', 'Ord'], 'Ord'), (['Ord', 'PartialOrd'], 'PartialOrd')):
        ctag = '+'.join(cfg) + '@' + carrier
        for shape, tag in ((sn, 'sn'), (st, 'st'), (en, 'en')):
            pos = (len(shape.variants) - 1, 1)
            tl = [M(t) for t in cfg]
            add('%s/f-ignore/%s' % (ctag, tag), shape, tl, f={pos: [M(carrier, [P('ignore', sp_flag('ignore'))], whole=[carrier + ' = false'])]})
            add('%s/f-notignore/%s' % (ctag, tag), shape, tl, f={pos: [M(carrier, [P('ignore', ['ignore = false', 'ignore(false)'])], whole=[carrier + ' = true'])]})
            for rk in (3, -2, 0, 2 ** 63 - 1, -2 ** 63 + 1):
                add('%s/f-rank%d/%s' % (ctag, rk, tag), shape, tl, f={pos: [M(carrier, [P('rank', sp_rank(rk))])]})
            # the extremes of isize, alone and next to another parameter (a negative literal that is not the last token reaches the parser as a negation expression);
            # isize::MIN is the default rank of a first field, so it goes on the first field of its element
            pos0 = (pos[0], 0)
            add('%s/f-rank-min/%s' % (ctag, tag), shape, tl, f={pos0: [M(carrier, [P('rank', sp_rank(-2 ** 63))])]})
            add('%s/f-rank-min-method/%s' % (ctag, tag), shape, tl, f={pos0: [M(carrier, [P('rank', sp_rank(-2 ** 63)), P('method', sp_method('cmp_m'))])]})
            add('%s/f-rank-max-method/%s' % (ctag, tag), shape, tl, f={pos: [M(carrier, [P('rank', sp_rank(2 ** 63 - 1)), P('method', sp_method('cmp_m'))])]})
            add('%s/f-rank-method/%s' % (ctag, tag), shape, tl, f={pos: [M(carrier, [P('rank', sp_rank(-1)), P('method', sp_method('cmp_m')), P('ignore', sp_notflag('ignore'))])],
                                                                     (0, 0): [M(carrier, [P('rank', sp_rank(0))])]})
            if len(cfg) == 1:
                add('%s/bound/%s' % (ctag, tag), shape, [M(cfg[0], [P('bound', sp_bound(['T: Ord']))])])
                add('%s/boundoff/%s' % (ctag, tag), shape, [M(cfg[0], [P('bound', SP_BOUND_OFF)])])

    # ---- Clone / Copy
    for shape, tag in ((sn, 'sn'), (st, 'st'), (en, 'en')):
        pos = (len(shape.variants) - 1, 1)
        add('Clone/f-method/' + tag, shape, [M('Clone')], f={pos: [M('Clone', [P('method', sp_method('clone_m'))])]})
        add('Clone/bound/' + tag, shape, [M('Clone', [P('bound', sp_bound(['T: Clone']))])])
        add('Clone/bound-lead/' + tag, shape, [M('Clone', [P('bound', sp_bound(['*const T: Copy', 'T: Clone']))])])
        add('CopyClone/bound/' + tag, shape, [M('Copy'), M('Clone', [P('bound', SP_BOUND_OFF)])])
        add('Copy/bound/' + tag, shape, [M('Copy', [P('bound', sp_bound(['T: Copy']))])])
        if shape.kind == 'enum':
            add('CopyClone/f-method/' + tag, shape, [M('Copy'), M('Clone')], f={pos: [M('Clone', [P('method', sp_method('clone_m'))])]})
    add('CopyClone/union', un, [M('Copy'), M('Clone')])

    # ---- Default
    exprs = [('7', 'u8'), ('-7', 'i8'), ('7u8', 'u16'), ('"hi"', 'String'), ("'c'", 'char'), ('1.5', 'f32'), ('true', 'bool'),
             ('1 + 2', 'u8'), ('String::from("x")', 'String'), ('b"ab"', 'Vec<u8>'), ('-1.5', 'f64'), ('-7', 'Wide'), ('(1, 2)', '(u8, u8)'),
             ('-7', 'i64'), ('Wide(-7)', 'Wide')]
    for e, ty in exprs:
        for shape, tag in ((sn, 'sn'), (st, 'st'), (en, 'en')):
            pos = (len(shape.variants) - 1, 1)
            v = {pos[0]: [M('Default')]} if shape.kind == 'enum' else {}
            lit = e[0] in '0123456789-"\'tb' and ' ' not in e and '(' not in e and '[' not in e and '::' not in e
            add('Default/f-expr/%s:%s/%s' % (e, ty, tag), shape, [M('Default')], v=v,
                f={pos: [M('Default', [P('expression', sp_expr(e))], whole=(['Default = %s' % e] if lit or True else []))]}, ftypes={pos: ty})
    for shape, tag in ((sn, 'sn'), (st, 'st'), (en, 'en'), (un, 'un')):
        v = {0: [M('Default')]} if shape.kind == 'enum' else {}
        f = {(0, 1): [M('Default')]} if shape.kind == 'union' else {}
        add('Default/new/' + tag, shape, [M('Default', [P('new', sp_flag('new')), P('bound', SP_BOUND_AUTO)])], v=v, f=f)
        add('Default/notnew/' + tag, shape, [M('Default', [P('new', sp_notflag('new'))])], v=v, f=f)
        val = {'sn': 'Ty { f0: 1, f1: 2 }', 'st': 'Ty(1, 2)', 'en': 'Ty::V0(1, 2)', 'un': 'Ty { f0: 1 }'}[tag]
        add('Default/texpr/' + tag, shape, [M('Default', [P('expression', sp_expr(val)), P('new', sp_flag('new'))])])
        add('Default/bound/' + tag, shape, [M('Default', [P('bound', sp_bound(['T: Default'])), P('new', sp_notflag('new'))])], v=v, f=f)

    # ---- Deref / DerefMut (flags only: attribute splitting and order)
    for shape, tag in ((sn, 'sn'), (st, 'st'), (en, 'en')):
        f = {(vi, 1): [M('Deref'), M('DerefMut')] for vi in range(len(shape.variants))}
        add('Deref/both/' + tag, shape, [M('Deref'), M('DerefMut')], f=f, ftypes={p: 'u8' for p in shape.positions()})

    # ---- Into
    for shape, tag in ((sn, 'sn'), (st, 'st'), (en, 'en')):
        fm = {(vi, 0): [M('Into', [P('ty', ['u16']), P('method', sp_method('conv_m'))], pin=True), M('Into', [P('ty', ['u8'])], pin=True)]
              for vi in range(len(shape.variants))}
        add('Into/method/' + tag, shape, [M('Into', [P('ty', ['u8'])], pin=True), M('Into', [P('ty', ['u16']), P('bound', sp_bound(['T: Copy']))], pin=True)], f=fm,
            ftypes={p: 'u8' for p in shape.positions()})
        add('Into/boundoff/' + tag, shape, [M('Into', [P('ty', ['u32']), P('bound', SP_BOUND_OFF)], pin=True)],
            f={(vi, 1): [M('Into', [P('ty', ['u32'])], pin=True)] for vi in range(len(shape.variants))})
        add('Into/ref/' + tag, shape, [M('Into', [P('ty', ["&'static str", '&str'])], pin=True)],
            f={(vi, 1): [M('Into', [P('ty', ["&'static str", '&str'])], pin=True)] for vi in range(len(shape.variants))}, ftypes={(vi, 1): "&'static str" for vi in range(len(shape.variants))})

    # ---- a trait that may be named several times (Into) among other traits: every order of the type-level entries in one list and split
    for shape, tag in ((sn, 'sn'), (en, 'en')):
        fm = {(vi, 1): [M('Into', [P('ty', ['u8'])], pin=True), M('Into', [P('ty', ['u16'])], pin=True), M('Into', [P('ty', ['u32'])], pin=True)] for vi in range(len(shape.variants))}
        ft = {p: 'u8' for p in shape.positions()}
        add('Into/among-others/2+2/' + tag, shape, [M('Into', [P('ty', ['u8'])], pin=True), M('Into', [P('ty', ['u16'])], pin=True), M('Debug'), M('Clone')],
            f={k: v[:2] for k, v in fm.items()}, ftypes=ft)
        add('Into/among-others/3+1/' + tag, shape, [M('Into', [P('ty', ['u8'])], pin=True), M('Into', [P('ty', ['u16'])], pin=True), M('Into', [P('ty', ['u32'])], pin=True), M('PartialEq')],
            f=fm, ftypes=ft)
        add('Into/among-others/2+1/' + tag, shape, [M('Into', [P('ty', ['u8'])], pin=True), M('Hash'), M('Into', [P('ty', ['u16'])], pin=True)], f={k: v[:2] for k, v in fm.items()}, ftypes=ft)

    # ---- names that are raw identifiers (every spelling must keep the `r#`), at the type, variant and field level
    for raw in ('r#type', 'r#struct'):
        for shape, tag in ((sn, 'sn'), (st, 'st'), (en, 'en')):
            add('Debug/rawname/%s/%s' % (raw, tag), shape, [M('Debug', [P('name', sp_name(raw))], whole=['Debug = %s' % raw, 'Debug = "%s"' % raw])])
        add('Debug/rawname-variant/%s' % raw, en, [M('Debug')], v={0: [M('Debug', [P('name', sp_name(raw))], whole=['Debug = %s' % raw, 'Debug = "%s"' % raw])]})
        add('Debug/rawname-variant-on/%s' % raw, en, [M('Debug', [P('name', sp_name(None, on=True))])],
            v={1: [M('Debug', [P('name', sp_name(raw))], whole=['Debug = %s' % raw, 'Debug = "%s"' % raw])]})
        for shape, tag, pos in ((sn, 'sn', (0, 1)), (en, 'en', (1, 0))):
            add('Debug/rawname-field/%s/%s' % (raw, tag), shape, [M('Debug')], f={pos: [M('Debug', [P('name', sp_name(raw))], whole=['Debug = %s' % raw, 'Debug = "%s"' % raw])]})
            add('Debug/rawname-field-method/%s/%s' % (raw, tag), shape, [M('Debug')], f={pos: [M('Debug', [P('name', sp_name(raw)), P('method', sp_method('fmt_m'))])]})

    # ---- method paths beyond plain `a::b`: generic arguments (turbofish), leading `::`, `crate` / `self` / `super` roots, raw segments
    paths = ['fmt_m::<u8>', 'a::Radix::<16, T>::fmt', '::a::b::f', 'crate::sup::f', 'self::f', 'super::g::f', 'a::r#fn', 'Vec::<Vec<T>>::len', "a::F::<'static, T>::f"]
    for trait in ('Debug', 'PartialEq', 'Hash', 'PartialOrd', 'Ord', 'Clone'):
        for shape, tag in ((sn, 'sn'), (st, 'st'), (en, 'en')):
            pos = (len(shape.variants) - 1, 1)
            for pi, pth in enumerate(paths):
                if (pi + len(tag) + len(trait)) % 3 and trait != 'Debug':
                    continue        # every path with Debug on every shape; a third of the (trait, shape, path) product elsewhere
                add('%s/f-method-path/%s/%s' % (trait, pth, tag), shape, [M(trait)], f={pos: [M(trait, [P('method', sp_method(pth))])]})
    for shape, tag in ((sn, 'sn'), (en, 'en')):
        for pth in paths[:2]:
            fm = {(vi, 0): [M('Into', [P('ty', ['u16']), P('method', sp_method(pth))], pin=True)] for vi in range(len(shape.variants))}
            add('Into/method-path/%s/%s' % (pth, tag), shape, [M('Into', [P('ty', ['u16'])], pin=True)], f=fm, ftypes={p: 'u8' for p in shape.positions()})

    # ---- wide shapes: the same parameters at two-digit field positions and in the fourth variant
    w12 = S('struct', [('t', 12)])
    w4 = S('enum', [('t', 1), ('n', 5), ('t', 4), ('n', 1)])
    for shape, tag, poss in ((w12, 'w12', [(0, 10), (0, 11)]), (w4, 'w4', [(2, 3), (1, 4), (3, 0)])):
        for pos in poss:
            named = shape.variants[pos[0]][0] == 'n'
            add('Debug/f-ignore/%s%s' % (tag, pos), shape, [M('Debug')], f={pos: [M('Debug', [P('ignore', sp_flag('ignore'))], whole=['Debug = false'])]})
            add('Debug/f-method/%s%s' % (tag, pos), shape, [M('Debug')], f={pos: [M('Debug', [P('method', sp_method('fmt_m')), P('ignore', sp_notflag('ignore'))])]})
            if named:
                add('Debug/f-name/%s%s' % (tag, pos), shape, [M('Debug')], f={pos: [M('Debug', [P('name', sp_name('kk')), P('method', sp_method('fmt_m'))], whole=[])]})
            for carrier, tl in (('PartialOrd', [M('PartialOrd')]), ('Ord', [M('PartialOrd'), M('Ord')])):
                add('%s/f-rank/%s%s' % (carrier, tag, pos), shape, tl, f={pos: [M(carrier, [P('rank', sp_rank(-3)), P('method', sp_method('cmp_m'))])], (pos[0], 0): [M(carrier, [P('rank', sp_rank(0))])] if pos[1] != 0 else []})
            add('Hash/f-ignore/%s%s' % (tag, pos), shape, [M('Hash'), M('PartialEq')], f={pos: [M('Hash', [P('ignore', sp_flag('ignore'))], whole=['Hash = false']), M('PartialEq', [P('method', sp_method('eq_m'))])]})
            v = {pos[0]: [M('Default')]} if shape.kind == 'enum' else {}
            add('Default/f-expr/%s%s' % (tag, pos), shape, [M('Default')], v=v, f={pos: [M('Default', [P('expression', sp_expr('-7'))], whole=['Default = -7'])]}, ftypes={pos: 'i64'})
    # ---- many traits at once: trait order and attribute splitting
    for shape, tag in ((sn, 'sn'), (en, 'en')):
        add('multi4/' + tag, shape, [M('Debug'), M('Clone'), M('PartialEq', [P('bound', SP_BOUND_OFF)]), M('Hash')],
            f={(0, 1): [M('Debug', [P('ignore', sp_flag('ignore'))]), M('Hash', [P('ignore', sp_flag('ignore'))]), M('PartialEq', [P('method', sp_method('eq_m'))])]})
        add('multi3/' + tag, shape, [M('PartialOrd'), M('Ord'), M('Default', [P('new', sp_flag('new'))])],
            v=({0: [M('Default')]} if shape.kind == 'enum' else {}),
            f={(0, 0): [M('Ord', [P('rank', sp_rank(2))]), M('Default', [P('expression', sp_expr('3'))], whole=['Default = 3'])]}, ftypes={(0, 0): 'u8'})
    # ---- several traits' attributes on one variant: order of the metas and their grouping into #[educe(..)] attributes
    for vi in (0, 1):
        add('multi-variant/en%d' % vi, en, [M('Debug'), M('Default'), M('PartialEq')],
            v={vi: [M('Default'), M('Debug', [P('name', sp_name('Vv'))], whole=['Debug = Vv', 'Debug = "Vv"'])]},
            f={(vi, 0): [M('PartialEq', [P('ignore', sp_flag('ignore'))]), M('Debug', [P('ignore', sp_flag('ignore'))])]}, ftypes={(vi, 0): 'u8', (vi, 1): 'u8'})
        add('multi-variant3/en%d' % vi, en, [M('Debug'), M('Default', [P('new', sp_flag('new'))]), M('Hash')],
            v={vi: [M('Debug', [P('nf', sp_bool('named_field', vi == 0)), P('name', sp_name('Vv'))]), M('Default')]}, ftypes={(vi, 0): 'u8', (vi, 1): 'u8'})
    return out


def groups_of(sc, tier):
    """yield (group key, [input texts]) — every member of a group is a spelling of the same request"""
    base = sc.render()
    for kind, key, ms in sc.positions():
        for mi, m in enumerate(ms):
            # (a) one parameter at a time over all its spellings
            for pi, p in enumerate(m.params):
                if len(p.sp) > 1:
                    yield ('%s|%s%s#%d.%s' % (sc.key, kind, key, mi, p.name),
                           [base] + [sc.render({(kind, key, mi): m.render({pi: si})}) for si in range(1, len(p.sp))])
            # (b) whole-meta shorthands (only meaningful when the other parameters are at their absent default)
            if m.whole:
                only = [i for i, p in enumerate(m.params) if p.sp[0] is not None]
                if len(only) <= 1:
                    yield ('%s|%s%s#%d.whole' % (sc.key, kind, key, mi), [base] + [sc.render({(kind, key, mi): w}) for w in m.whole])
            # (c) parameter order
            present = [i for i, p in enumerate(m.params) if p.sp[0] is not None]
            if len(present) >= 2:
                perms = []
                for perm in itertools.permutations(range(len(m.params))):
                    if m.pin and perm[0] != 0:
                        continue
                    perms.append(sc.render({(kind, key, mi): m.render(order=perm)}))
                yield ('%s|%s%s#%d.order' % (sc.key, kind, key, mi), perms)
            # (e) two parameters varied at once
            if len(m.params) >= 2:
                for (i, a), (j, b) in itertools.combinations(enumerate(m.params), 2):
                    if len(a.sp) > 1 and len(b.sp) > 1:
                        combos = list(itertools.product(range(len(a.sp)), range(len(b.sp))))
                        if tier == 'quick' and len(combos) > 16:
                            combos = combos[::max(1, len(combos) // 16)]
                        texts = [base]
                        for si, sj in combos:
                            for order in ((None,) if tier == 'quick' else (None, 'rev')):
                                o = None
                                if order == 'rev':
                                    o = list(range(len(m.params)))
                                    if m.pin:
                                        o = [0] + o[1:][::-1]
                                    else:
                                        o = o[::-1]
                                texts.append(sc.render({(kind, key, mi): m.render({i: si, j: sj}, order=o)}))
                        yield ('%s|%s%s#%d.%s*%s' % (sc.key, kind, key, mi, a.name, b.name), texts)
        # (d) trait order and attribute splitting at this position
        if 2 <= len(ms) <= 4:
            idx = list(range(len(ms)))
            if len(ms) <= 3:
                lays = partitions(idx)
            else:
                lays = [[list(p)] for p in itertools.permutations(idx)] + [[[i] for i in p] for p in itertools.permutations(idx)][:24]
            # Into: the order of several Into(..) entries is free as well
            yield ('%s|%s%s.layout' % (sc.key, kind, key), [sc.render(layout={(kind, key): lay}) for lay in lays])
    # two independent positions varied at once
    pos = [(k, key, mi, pi) for k, key, ms in sc.positions() for mi, m in enumerate(ms) for pi, p in enumerate(m.params) if len(p.sp) > 1]
    byp = {}
    for k, key, mi, pi in pos:
        byp.setdefault((k, key, mi), []).append(pi)
    metas = {(k, key, mi): m for k, key, ms in sc.positions() for mi, m in enumerate(ms)}
    for (ma, mb) in itertools.combinations(sorted(byp, key=str), 2):
        a, b = metas[ma], metas[mb]
        pa, pb = byp[ma][0], byp[mb][0]
        texts = [base]
        for si, sj in itertools.product(range(len(a.params[pa].sp)), range(len(b.params[pb].sp))):
            texts.append(sc.render({ma: a.render({pa: si}), mb: b.render({pb: sj})}))
        yield ('%s|%s*%s' % (sc.key, ma, mb), texts)


def check(v, tier, only=None):
    binary = xp.build_xp()
    groups = []
    for sc in scenarios(tier):
        for gk, texts in groups_of(sc, tier):
            # dedupe identical texts inside a group
            seen, uniq = set(), []
            for t in texts:
                if t not in seen:
                    seen.add(t)
                    uniq.append(t)
            if len(uniq) >= 2:
                groups.append((gk, uniq))
    if only:
        groups = [g for g in groups if 'C14|' + g[0] == only]
    guard(len({g for g, _ in groups}) == len(groups), 'duplicate group keys')
    flat = [t for _, ts in groups for t in ts]
    res = xp.expand_all(binary, flat)
    from .. import realmacro
    if not only:
        realmacro.conformance(v, binary, flat, res)
    k = 0
    nontriv = 0
    for gk, texts in groups:
        rs = res[k:k + len(texts)]
        k += len(texts)
        v.cov['states'] += len(texts)
        v.cov['transitions'] += len(texts) - 1
        v.cov['evaluations'] += len(texts) - 1
        ref = rs[0]
        case = Case('C14|' + gk, '', {'group': gk, 'spellings': len(texts)}, run=False, depth=1)
        if ref['st'] != 'ok':
            case.body = '// reference spelling:\n' + texts[0]
            v.violation(case, 'the reference spelling of a documented request is not accepted: %s %s' % (ref['st'], ref.get('msg', '')[:300]))
            continue
        v.cov['traces_validated_against_impl'] += len(texts)
        refm = xp.items_multiset(ref)
        bad = None
        for t, r in zip(texts[1:], rs[1:]):
            if r['st'] != 'ok':
                bad = (t, 'is refused (%s: %s)' % (r['st'], r.get('msg', '')[:200]))
                break
            if xp.items_multiset(r) != refm:
                d = [(a, b) for a, b in zip(xp.items_multiset(r), refm) if a != b][:1]
                bad = (t, 'generates different code: %s' % (str(d)[:700]))
                break
        if len(texts) >= 3:
            nontriv += 1
        if bad:
            case.body = '// reference spelling:\n%s\n// this spelling %s:\n%s' % (texts[0], bad[1].split(':')[0], bad[0])
            v.violation(case, 'a spelling of the same request %s' % bad[1])
    v.cov['distinct_nontrivial'] = nontriv
    v.notes['groups'] = len(groups)
    for gk, texts in (groups[::max(1, len(groups) // 6)][:6] if groups else []):
        v.sample({'group': gk, 'spellings': texts[:4]})
    guard(only or len(groups) > 300, 'too few spelling groups')
    return v.finish('spelling groups: for every scenario (trait x shape {named/tuple generic struct, generic enum, union} x position {type, variant, first/last field} '
                    'x parameter set) each parameter over all documented spellings (p = v, p(v), string-literal forms, name/rename, expression/expr, '
                    'ignore / ignore = true / ignore(true), absent vs explicit default), Trait = X shorthands, all parameter orders (unsafe / the Into type '
                    'pinned first), all orders and all splittings of <= 3 metas into separate #[educe] attributes (24 orders of 4 traits), and pairs of '
                    'parameters / positions varied at once; oracle: every member expands and yields the same multiset of impl items, token for token '
                    '(negative literals normalised); non-trivial = group with at least 3 spellings',
                    {'bounds': {'tier': tier}})
