"""C11 — automatic bounds are exactly those the generated code needs (engine RT, compile-time trait-resolution probes)."""
import itertools

from ..core import Case

FORMS = ['{P}', 'Vec<{P}>', 'Option<{P}>', 'std::marker::PhantomData<{P}>', "&'static {P}", '[{P}; 2]', 'fn({P}) -> {P}', '({P}, u8)', 'Box<{P}>']
PARAMS = ['A', 'B', 'C']
PATH = {'Debug': 'std::fmt::Debug', 'Clone': 'Clone', 'Copy': 'Copy', 'PartialEq': 'PartialEq', 'Eq': 'Eq', 'PartialOrd': 'PartialOrd', 'Ord': 'Ord',
        'Hash': 'std::hash::Hash', 'Default': 'Default', 'Into': 'Into<u64>', 'Into32': 'Into<u32>'}
# configuration: id -> (type-level metas, carrier for field attributes, hand-written partners, [(trait probed, required trait of delegated fields, which fields count)])
# "which": 'deleg' = fields that are neither ignored nor method-handled, 'all' = every field
CONFIGS = {
    'Debug': (['Debug'], 'Debug', [], [('Debug', 'Debug', 'deleg')]),
    'Debug/flip': (['Debug(name = true)'], 'Debug', [], [('Debug', 'Debug', 'deleg')]),
    'Clone': (['Clone'], 'Clone', [], [('Clone', 'Clone', 'deleg')]),
    'Copy+Clone': (['Copy', 'Clone'], 'Clone', [], [('Clone', 'Copy', 'copyclone'), ('Copy', 'Copy', 'all')]),
    'Copy': (['Copy'], None, ['Clone'], [('Copy', 'Copy', 'all')]),
    'PartialEq': (['PartialEq'], 'PartialEq', [], [('PartialEq', 'PartialEq', 'deleg')]),
    'PartialEq+Eq': (['PartialEq', 'Eq'], 'PartialEq', [], [('PartialEq', 'PartialEq', 'deleg'), ('Eq', 'PartialEq', 'deleg')]),
    'Eq+PartialEq@Eq': (['Eq', 'PartialEq'], 'Eq', [], [('PartialEq', 'PartialEq', 'deleg'), ('Eq', 'PartialEq', 'deleg')]),
    'Eq': (['Eq'], None, ['PartialEq'], [('Eq', 'PartialEq', 'all')]),
    'PartialOrd': (['PartialOrd'], 'PartialOrd', ['PartialEq'], [('PartialOrd', 'PartialOrd', 'deleg')]),
    'Ord': (['Ord'], 'Ord', ['PartialEq', 'Eq', 'PartialOrd'], [('Ord', 'Ord', 'deleg')]),
    'PartialOrd+Ord': (['PartialOrd', 'Ord'], 'Ord', ['PartialEq', 'Eq'], [('Ord', 'Ord', 'deleg'), ('PartialOrd', 'Ord', 'deleg')]),
    'Ord+PartialOrd@P': (['Ord', 'PartialOrd'], 'PartialOrd', ['PartialEq', 'Eq'], [('Ord', 'Ord', 'deleg'), ('PartialOrd', 'Ord', 'deleg')]),
    'Hash': (['Hash'], 'Hash', [], [('Hash', 'Hash', 'deleg')]),
    'Default': (['Default'], 'Default', [], [('Default', 'Default', 'deleg')]),
    'Default@V0': (['Default'], 'Default', [], [('Default', 'Default', 'deleg')]),      # enums only: the default variant is the tuple variant
    'Into': (['Into(u64)'], 'Into', [], [('Into', 'Into', 'into')]),
    'Into2': (['Into(u64)', 'Into(u32)'], 'Into', [], [('Into', 'Into', 'into'), ('Into32', 'Into32', 'into32')]),
}
SUPER = {'PartialOrd': ['PartialEq'], 'Ord': ['Eq', 'PartialOrd'], 'Copy': ['Clone'], 'Eq': ['PartialEq']}
METHOD = {'Debug': 'fmt_any', 'Clone': 'clone_any', 'PartialEq': 'eq_any', 'Eq': 'eq_any', 'PartialOrd': 'pcmp_any', 'Ord': 'cmp_any', 'Hash': 'hash_any'}
PARTNER_IMPL = {
    'Clone': 'impl{G} Clone for Ty{A} {{ fn clone(&self) -> Self {{ unreachable!() }} }}\n',
    'PartialEq': 'impl{G} PartialEq for Ty{A} {{ fn eq(&self, _: &Self) -> bool {{ true }} }}\n',
    'Eq': 'impl{G} Eq for Ty{A} {{}}\n',
    'PartialOrd': 'impl{G} PartialOrd for Ty{A} {{ fn partial_cmp(&self, _: &Self) -> Option<std::cmp::Ordering> {{ None }} }}\n',
}


def statuses(cfg):
    carrier = CONFIGS[cfg][1]
    if carrier is None:
        return 'd'
    if carrier == 'Clone':
        return 'dm'
    if carrier == 'Default':
        return 'de'
    if carrier == 'Into':
        return 'd'
    return 'dim'


def field_meta(cfg, st, orders_ord):
    carrier = CONFIGS[cfg][1]
    if st == 'd' or carrier is None:
        return None
    if st == 'i':
        return '%s(ignore)' % carrier
    if st == 'm':
        m = METHOD[carrier]
        if carrier == 'PartialOrd' and orders_ord:
            m = 'cmp_any'
        return '%s(method(%s))' % (carrier, m)
    if st == 'e':
        return 'Default(expression = make_any())'
    raise ValueError(st)


def build(cfg, kind, stat, forms, cond=False, wc=False, foreign=False):
    """kind: struct | tuple | enum | union.  stat / forms: per field (field k uses parameter k)."""
    metas, carrier, partners, probes = CONFIGS[cfg]
    n = len(stat)
    params = PARAMS[:n]
    gdecl = '<%s>' % ', '.join("%s: 'static" % p for p in params)
    gargs = '<%s>' % ', '.join(params)
    ftypes = [FORMS[forms[k]].format(P=params[k]) for k in range(n)]
    wherec = ''
    cargs = ''
    if wc == 'inline':
        # the same projection-typed fields with the bound written inline in the parameter list (impl generics and type generics print differently)
        gdecl = '<%s>' % ', '.join("%s: 'static + Pr" % p for p in params)
        ftypes = [FORMS[forms[k]].format(P=params[k] + '::Out') for k in range(n)]
    elif wc == 'const':
        # a const parameter after the type parameters (declared `const CN: usize`, named `CN` in the type's arguments)
        gdecl = '<%s, const CN: usize>' % ', '.join("%s: 'static" % p for p in params)
        gargs = '<%s, CN>' % ', '.join(params)
        cargs = ', 2'
    elif wc:
        # the bounds live in the type's where-clause and the fields use a projection that only exists under it
        gdecl = '<%s>' % ', '.join(params)
        wherec = ' where %s' % ', '.join("%s: 'static + Pr" % p for p in params)
        ftypes = [FORMS[forms[k]].format(P=params[k] + '::Out') for k in range(n)]
    orders_ord = 'Ord' in metas
    fmetas = [field_meta(cfg, stat[k], orders_ord) for k in range(n)]
    copy_struct = cfg == 'Copy+Clone' and kind in ('struct', 'tuple')
    if copy_struct and 'm' in stat:
        return None
    src = '#[derive(Educe)]\n' + ''.join('#[educe(%s)]\n' % m for m in metas)

    def fl(k, named):
        a = '#[educe(%s)] ' % fmetas[k] if fmetas[k] else ''
        if foreign:     # attributes of other tools before (and after) the field's educe attribute
            a = '#[doc = "documented"] #[allow(unused)] ' + a + ('#[cfg_attr(any(), deprecated)] ' if k % 2 else '')
        return '%s%s%s' % (a, 'f%d: ' % k if named else '', ftypes[k])
    if cfg == 'Into':
        # the first field is chosen for u64
        fmetas = ['Into(u64)' if (k == 0 and n > 1) else None for k in range(n)]
    if cfg == 'Into2':
        if n < 2:
            return None
        fmetas = [{0: 'Into(u64)', 1: 'Into(u32)'}.get(k) for k in range(n)]
    if kind == 'struct':
        src += 'pub struct Ty%s {\n%s}\n' % (gdecl + wherec, ''.join('    %s,\n' % fl(k, True) for k in range(n)))
    elif kind == 'tuple':
        src += 'pub struct Ty%s(\n%s)%s;\n' % (gdecl, ''.join('    %s,\n' % fl(k, False) for k in range(n)), wherec)
    elif kind == 'enum':
        # V0 holds the fields positionally, V1 holds them named; Default marks V1; a unit variant where allowed
        dm = '    #[educe(Default)]\n' if cfg == 'Default' else ''
        unit = '' if cfg in ('Into', 'Into2') else '    V2,\n'
        flip0 = '#[educe(Debug(named_field = true))] ' if cfg == 'Debug/flip' else ''
        flip1 = '    #[educe(Debug(named_field = false, name = false))]\n' if cfg == 'Debug/flip' else ''
        dm = dm + flip1
        if cfg == 'Default@V0':
            src += 'pub enum Ty%s {\n    #[educe(Default)] V0(%s),\n    V1 { %s },\n    V2,\n}\n' % (gdecl + wherec, ', '.join(fl(k, False) for k in range(n)), ', '.join('f%d: %s' % (k, ftypes[k]) for k in range(n)))
        else:
            src += 'pub enum Ty%s {\n    %sV0(%s),\n%s    V1 { %s },\n%s}\n' % (gdecl + wherec, flip0, ', '.join(ftypes[k] for k in range(n)) if cfg in ('Default',) else ', '.join(fl(k, False) for k in range(n)),
                                                                             dm, ', '.join(fl(k, True) for k in range(n)), unit)
    else:
        md = lambda t: 'std::mem::ManuallyDrop<%s>' % t
        dmark = '#[educe(Default)] ' if cfg == 'Default' else ''
        src += 'pub union Ty%s {\n%s    pad: u8,\n}\n' % (gdecl + wherec, ''.join('    %sf%d: %s,\n' % (dmark if k == 0 else '', k, md(ftypes[k])) for k in range(n)))
        ftypes = [md(t) for t in ftypes]
    if cond and not partners:
        return None
    gcond = '<%s%s>' % (', '.join("%s: 'static%s" % (p, ' + Mk' if k == 0 else '') for k, p in enumerate(params)), ', const CN: usize' if wc == 'const' else '')
    for p in partners:
        src += PARTNER_IMPL[p].format(G=gcond if cond else gdecl, A=gargs + wherec)
    body = ''
    for inst in itertools.product(['Yes', 'No'], repeat=n):
        targs = '<%s%s>' % (', '.join(inst), cargs)
        for (probed, req, which) in probes:
            terms = []
            for k in range(n):
                if which == 'all':
                    use = True
                elif which == 'copyclone':
                    # Clone next to Copy: implemented by copy (struct, union, enum without methods): every field Copy;
                    # enum with a method: field by field, Clone on the non-method fields
                    if kind == 'enum' and 'm' in stat:
                        use = stat[k] == 'd'
                    else:
                        use = True
                elif which == 'into':
                    use = (k == 0)
                elif which == 'into32':
                    use = (k == 1)
                else:
                    use = stat[k] == 'd'
                if kind == 'union' and cfg in ('Copy+Clone', 'Clone'):
                    use = True
                if kind == 'union' and cfg == 'Default':
                    use = (k == 0)
                if use:
                    r = req
                    if which == 'copyclone' and kind == 'enum' and 'm' in stat:
                        r = 'Clone'
                    if kind == 'union' and cfg == 'Clone':
                        r = 'Copy'
                    ft = FORMS[forms[k]].format(P=('<%s as Pr>::Out' % inst[k]) if wc in (True, 'inline') else inst[k])
                    if kind == 'union':
                        ft = 'std::mem::ManuallyDrop<%s>' % ft
                    terms.append('probe!(%s: %s)' % (ft, PATH[r]))
            if cond:
                for sp in SUPER.get(probed, []):
                    if sp in partners:
                        terms.append('probe!(Ty%s: %s)' % (targs, PATH[sp]))
            want = ' && '.join(terms) if terms else 'true'
            body += '    { let got = probe!(Ty%s: %s); let want = %s;\n' % (targs, PATH[probed], want)
            body += '      r.ck(got == want, got as u64, &|| format!("Ty%s: %s is {} but the fields it delegates to give {}", got, want)); }\n' % (targs, probed)
        if len(probes) == 2 and cfg != 'Into2':
            body += '    r.ck(probe!(Ty%s: %s) == probe!(Ty%s: %s), 4, &|| "companion and primary impl apply to different instantiations at %s".to_string());\n' % (
                targs, PATH[probes[0][0]], targs, PATH[probes[1][0]], targs) if cfg not in ('Copy+Clone',) or not (kind == 'enum' and 'm' in stat) else ''
    src += 'pub fn check(r: &mut Rep) {\n%s}\n' % body
    key = 'C11|%s|%s|%s|%s%s%s%s' % (cfg, kind, stat, ','.join(str(f) for f in forms), '|cond' if cond else '', {False: '', True: '|wc', 'inline': '|inline', 'const': '|const'}[wc], '|foreign' if foreign else '')
    depth = sum(1 for s in stat if s != 'd') + (cfg.count('+'))
    return Case(key, src, {'config': cfg, 'kind': kind, 'status': stat, 'field_types': [FORMS[f] for f in forms]}, expect='accept', run=True, depth=depth)


def generate(tier):
    cases = []
    for cfg in CONFIGS:
        kinds = ['struct', 'tuple', 'enum'] if cfg not in ('Debug/flip', 'Default@V0') else ['enum']
        if cfg in ('Copy+Clone', 'Copy', 'Eq', 'Default'):
            kinds.append('union')
        for kind in kinds:
            st = statuses(cfg) if kind != 'union' else 'd'
            plans = []
            for f0 in range(len(FORMS)):
                for s in st:
                    plans.append((s, (f0,)))
            sub = [0, 1, 3] if tier == 'quick' else [0, 1, 3, 4, 6]
            for s in itertools.product(st, repeat=2):
                for fa, fb in itertools.product(sub, repeat=2):
                    plans.append((''.join(s), (fa, fb)))
            for s in itertools.product(st, repeat=3):
                for rot in ((0, 1, 3), (3, 0, 5)) if tier == 'quick' else ((0, 1, 3), (3, 0, 5), (6, 7, 8), (2, 4, 0)):
                    plans.append((''.join(s), rot))
            for stat, forms in plans:
                if kind == 'union' and any(FORMS[f].startswith('&') is False and False for f in forms):
                    continue
                for cond in (False, True):
                    if cond and len(stat) == 3 and tier == 'quick':
                        continue
                    c = build(cfg, kind, stat, forms, cond)
                    if c is not None:
                        cases.append(c)
    # the same with the bounds in the type's own where-clause and projection-typed fields (`A::Out` under `where A: Pr`)
    for cfg in CONFIGS:
        kinds = ['struct', 'tuple', 'enum'] if cfg not in ('Debug/flip', 'Default@V0') else ['enum']
        for kind in kinds:
            st = statuses(cfg)
            plans = [(s, (f0,)) for f0 in (0, 1, 3, 6) for s in st]
            for s in itertools.product(st, repeat=2):
                for fa, fb in ((0, 0), (0, 3), (1, 0)) if tier == 'quick' else itertools.product((0, 1, 3, 6), repeat=2):
                    plans.append((''.join(s), (fa, fb)))
            for stat, forms in plans:
                c = build(cfg, kind, stat, forms, False, wc=True)
                if c is not None:
                    cases.append(c)
    # parameter lists whose impl-generics and type-generics differ (inline trait bounds, const parameters), and other tools' attributes around the field attributes
    for cfg in CONFIGS:
        kinds = ['struct', 'tuple', 'enum'] if cfg not in ('Debug/flip', 'Default@V0') else ['enum']
        for kind in kinds:
            st = statuses(cfg)
            plans = [(s, (f0,)) for f0 in (0, 1, 3) for s in st] + [(''.join(s), (0, 3)) for s in itertools.product(st, repeat=2)]
            for stat, forms in plans:
                for wcm, fo, cond in (('inline', False, False), ('const', False, False), ('const', False, True), (False, True, False), (True, True, False)):
                    if wcm == 'const' and cfg == 'Default':
                        pass
                    c = build(cfg, kind, stat, forms, cond, wc=wcm, foreign=fo)
                    if c is not None:
                        cases.append(c)
    # the same probes with decoy `core` / `std` modules in scope of the derive (a bound written with a relative path would name a decoy trait that every type implements)
    from .common import decoy_layer
    base = [c for c in cases if c is not None]
    cases += decoy_layer(base, 100)
    # (the supertrait predicates only show against a conditional partner: all one-parameter states with a conditional hand-written partner)
    from .common import with_decoys
    cases += [d for d in (with_decoys(c) for c in base if c.key.endswith('|cond') and ',' not in c.key.split('|')[4] and c.key.split('|')[4] in ('0', '1')) if d is not None]
    cases += noparam_cases()
    seen, out = set(), []
    for c in cases:
        if c.key not in seen:
            seen.add(c.key)
            out.append(c)
    return out


def noparam_cases():
    """types whose parameter list holds no *type* parameter (const and lifetime parameters only): the automatic predicates on the field types and on Self are needed all the same,
    because an impl of the field type (or the hand-written partner) may depend on the const argument or the lifetime"""
    out = []
    only = {'Debug': "impl std::fmt::Debug for Only<0> { fn fmt(&self, f: &mut std::fmt::Formatter<'_>) -> std::fmt::Result { f.write_str(\"o\") } }",
            'Clone': 'impl Clone for Only<0> { fn clone(&self) -> Self { Only(self.0) } }',
            'PartialEq': 'impl PartialEq for Only<0> { fn eq(&self, o: &Self) -> bool { self.0 == o.0 } }',
            'Hash': 'impl std::hash::Hash for Only<0> { fn hash<HH: std::hash::Hasher>(&self, h: &mut HH) { h.write_u8(self.0) } }',
            'Default': 'impl Default for Only<0> { fn default() -> Self { Only(0) } }',
            'PartialOrd': 'impl PartialEq for Only<0> { fn eq(&self, o: &Self) -> bool { self.0 == o.0 } }\nimpl PartialOrd for Only<0> { fn partial_cmp(&self, o: &Self) -> Option<std::cmp::Ordering> { self.0.partial_cmp(&o.0) } }'}
    for t, imp in only.items():
        tl = {'PartialOrd': 'PartialEq, PartialOrd'}.get(t, t)
        for kind, decl in (('sn', "pub struct Ty<const CN: usize> { pub a: u8, pub o: Only<CN> }"), ('st', "pub struct Ty<'a, const CN: usize>(pub &'a u8, pub Only<CN>);"),
                           ('en', "pub enum Ty<const CN: usize> { #[educe(Default)] A(Only<CN>), B { x: u8 } }")):
            d = decl if t == 'Default' else decl.replace('#[educe(Default)] ', '')
            if t == 'Default' and kind == 'st':
                continue        # (&'a u8 has no Default)
            inst = "Ty<%s{N}>" % ("'static, " if kind == 'st' else '')
            src = 'pub struct Only<const K: usize>(pub u8);\n%s\n#[derive(Educe)]\n#[educe(%s)]\n%s\n' % (imp, tl, d)
            src += ('pub fn check(r: &mut Rep) {\n    r.ck(probe!(%s: %s), 0, &|| "the impl does not apply where the field type implements the trait (const argument 0)".to_string());\n'
                    '    r.ck(!probe!(%s: %s), 1, &|| "the impl applies although the field type does not implement the trait (const argument 1)".to_string());\n}\n') % (
                inst.replace('{N}', '0'), PATH[t], inst.replace('{N}', '1'), PATH[t])
            out.append(Case('C11|no-type-param|const-dependent-field|%s|%s' % (t, kind), src, {'trait': t, 'shape': kind, 'parameters': 'const (and lifetime) only'}, expect='accept', run=True, depth=1))
    # the array impls of Default stop at 32
    src = ('#[derive(Educe)]\n#[educe(Default, Debug)]\npub struct Ty<const CN: usize> { pub len: usize, pub data: [u8; CN] }\n'
           'pub fn check(r: &mut Rep) {\n    r.ck(probe!(Ty<4>: Default), 0, &|| "Ty<4> is not Default".to_string());\n    r.ck(!probe!(Ty<40>: Default), 1, &|| "Ty<40> is Default although [u8; 40] is not".to_string());\n'
           '    r.ck(probe!(Ty<40>: std::fmt::Debug), 2, &|| "Ty<40> is not Debug".to_string());\n}\n')
    out.append(Case('C11|no-type-param|array-default', src, {'trait': 'Default', 'parameters': 'const only'}, expect='accept', run=True, depth=1))
    # a lifetime-dependent impl of the field type
    src = ("pub struct Tagged<'a>(pub &'a u8);\nimpl PartialEq for Tagged<'static> { fn eq(&self, o: &Self) -> bool { self.0 == o.0 } }\n"
           "#[derive(Educe)]\n#[educe(PartialEq)]\npub enum Ty<'a, const CK: u8> { A(Tagged<'a>), B }\nstatic ONE: u8 = 1;\n"
           "pub fn check(r: &mut Rep) {\n    let x: Ty<'static, 1> = Ty::A(Tagged(&ONE));\n    r.ck(x == Ty::A(Tagged(&ONE)) && x != Ty::B, 0, &|| \"== does not compare the fields\".to_string());\n"
           "    r.ck(probe!(Ty<'static, 1>: PartialEq), 1, &|| \"not PartialEq at 'static\".to_string());\n}\n")
    out.append(Case('C11|no-type-param|lifetime-dependent-field', src, {'trait': 'PartialEq', 'parameters': 'lifetime + const'}, expect='accept', run=True, depth=1))
    # the supertrait predicate on Self against a partner that exists for one const argument only
    for t, partner, sup in (('PartialOrd', 'impl PartialEq for Ty<0> { fn eq(&self, o: &Self) -> bool { self.0 == o.0 } }', 'PartialEq'),
                            ('Eq', 'impl PartialEq for Ty<0> { fn eq(&self, o: &Self) -> bool { self.0 == o.0 } }', 'PartialEq'),
                            ('Copy', 'impl Clone for Ty<0> { fn clone(&self) -> Self { Ty(self.0) } }', 'Clone')):
        src = ('#[derive(Educe)]\n#[educe(%s)]\npub struct Ty<const CN: usize>(pub u32);\n%s\n'
               'pub fn check(r: &mut Rep) {\n    r.ck(probe!(Ty<0>: %s), 0, &|| "the impl does not apply where the hand-written %s exists".to_string());\n'
               '    r.ck(!probe!(Ty<1>: %s), 1, &|| "the impl applies where the supertrait %s is missing".to_string());\n}\n') % (t, partner, PATH[t], sup, PATH[t], sup)
        out.append(Case('C11|no-type-param|const-dependent-partner|%s' % t, src, {'trait': t, 'partner': sup, 'parameters': 'const only'}, expect='accept', run=True, depth=1))
    return out


RULE = ('generic types with 1..3 type parameters, field k of type Form_k<P_k> with Form in {P, Vec<P>, Option<P>, PhantomData<P>, &\'static P, [P;2], fn(P)->P, (P,u8), Box<P>} x per-field status '
        '{delegated, ignored, method (a method needing nothing of its argument), Default expression, Into chosen/unchosen} x trait configuration {every trait, Copy+Clone, PartialEq+Eq with the attributes on '
        'either, PartialOrd+Ord with the attributes on either, stand-alone Copy / Eq / Ord / PartialOrd with hand-written partners, unconditional or implemented only for a marked first parameter, Into with one and two targets} x {named struct, tuple struct, enum (positional + named + unit variants), '
        'union over ManuallyDrop}; every instantiation of the parameters with Yes (implements everything) / No (implements nothing); oracle: the compile-time probe Ty<Args>: Trait must equal the '
        'conjunction, over exactly the fields the model marks as delegated, of the same probe on the field\'s type (so which std types implement what is answered by rustc), and companion impls must '
        'apply to the same instantiations as the primary; non-trivial = both true and false observed')


def check(v, tier):
    from .common import run_behavioural
    cases = generate(tier)
    run_behavioural(v, cases, 'C11', nontrivial_min=2, min_nontrivial_ratio=0.6, shard_size=150)
    return v.finish(RULE, {'bounds': {'parameters': 3, 'tier': tier}})
