"""C18 — every subset of trait features builds and behaves like the full build."""
import concurrent.futures as cf
import itertools
import json
import os
import shlex
import shutil
import time

from .. import catalog as K
from .. import core
from .. import xp
from ..core import Case, guard, log

FEATS = xp.ALL_FEATURES
REQUIRES = {'Copy': None}


def cargo_cmdline():
    """Ask cargo (verbose, in a probe target dir) how it compiles educe: gives the --extern / -L / --check-cfg arguments."""
    core.ensure_lockfile()
    tdir = os.path.join(core.BUILD, 'c18-probe-' + core.repo_tag())
    with core.Lock('c18-probe-' + core.repo_tag()):
        rc, out, err = core.run_proc(['cargo', 'rustc', '--lib', '--offline', '-v', '--manifest-path', os.path.join(core.EDUCE_REPO, 'Cargo.toml'),
                                      '--target-dir', tdir, '--', '--cfg', 'verif_nonce_%d' % int(time.time() * 1000)], timeout=900, mem_gb=32)
    line = None
    for l in err.splitlines():
        if 'Running `' in l and '--crate-name educe ' in l:
            line = l[l.index('Running `') + 9:l.rindex('`')]
    if rc != 0 or line is None:
        raise core.MachineryError('cannot obtain the compiler command line for educe: ' + err[-1500:])
    args = shlex.split(line)
    keep = []
    i = 1
    while i < len(args):
        a = args[i]
        nxt = args[i + 1] if i + 1 < len(args) else ''
        if a == '--cfg' and (nxt.startswith('feature=') or nxt.startswith('verif_nonce')):
            i += 2
            continue
        if a == '-C' and (nxt.startswith('metadata=') or nxt.startswith('extra-filename=') or nxt.startswith('incremental=') or nxt.startswith('debuginfo')):
            i += 2
            continue
        if a in ('--out-dir', '--crate-type'):
            i += 2
            continue
        if a.startswith('--emit') or a.startswith('--json') or a.startswith('--error-format') or a == 'src/lib.rs':
            i += 1
            continue
        keep.append(a)
        i += 1
    return args[0], keep


def subsets(tier, part):
    alls = []
    for r in range(0, 13):
        for c in itertools.combinations(FEATS, r):
            alls.append(c)
    if tier != 'quick' and part == 'build':
        return alls
    sel = set()
    for c in alls:
        if len(c) <= (2 if part == 'build' else 1) or len(c) >= (10 if part == 'build' else 11):
            sel.add(c)
    coupled = [('Clone', 'Copy'), ('PartialEq', 'Eq'), ('PartialOrd', 'Ord')]
    for a, b in coupled:
        for extra in ([], ['Debug'], ['Hash', 'Default'], ['Deref', 'DerefMut', 'Into']):
            for base in ([a], [b], [a, b]):
                sel.add(tuple(f for f in FEATS if f in base + extra))
    sel.add(tuple(f for f in FEATS if f in ('Ord', 'Eq')))
    sel.add(tuple(f for f in FEATS if f in ('Ord', 'PartialEq', 'Eq', 'Hash')))
    sel.add(tuple(f for f in FEATS if f in ('DerefMut', 'Clone', 'Copy', 'Eq', 'Default')))
    sel.add(tuple(f for f in FEATS if f in ('Into', 'Default')))
    if tier != 'quick':
        # behaviour half, thorough: additionally every subset of size 2, 3 and 9, and a systematic sample of the rest
        for k, c in enumerate(alls):
            if len(c) in (2, 3, 9) or k % 7 == 0:
                sel.add(c)
    return sorted(sel, key=lambda c: (len(c), c))


def corpus():
    """(traits used, input text)"""
    out = []
    for sh in K.xshapes('small'):
        per = {}
        for g in K.GROUPS:
            for partner in ([False, True] if g in K.PARTNER else [False]):
                cs = K.group_configs(g, sh, 'full' if (partner and g in ('PartialOrd', 'PartialEq') and len(sh.positions()) <= 2) else 'small', partner)
                used = {g} | ({K.PARTNER[g]} if partner else set())
                for c in cs:
                    out.append((frozenset(used), K.render(sh, c)))
                if cs:
                    per[(g, partner)] = (used, cs)
        keys = sorted(per)
        for a, b in itertools.combinations(keys, 2):
            if a[0] == b[0]:
                continue
            ca, cb = per[a][1], per[b][1]
            cfg = K.merge([ca[len(cb) % len(ca)], cb[len(ca) % len(cb)]])
            out.append((frozenset(per[a][0] | per[b][0]), K.render(sh, cfg)))
    # stand-alone companions
    st = K.XShape('struct', [('n', 2)], '<T>', '', ftypes={(0, 0): 'T'})
    for t in ('Copy', 'Eq', 'Ord'):
        out.append((frozenset([t]), K.render(st, K.Config(t, [t]))))
        out.append((frozenset([t]), K.render(K.XShape('enum', [('t', 1), ('u', 0)]), K.Config(t, [t]))))
    seen, uniq = set(), []
    for u, t in out:
        if t not in seen:
            seen.add(t)
            uniq.append((u, t))
    return uniq


# a request educing one trait E, plus one attribute naming another trait D somewhere below the type level
STRAY_FORM = {'Debug': ['Debug', 'Debug(ignore)'], 'Clone': ['Clone', 'Clone(method(m))'], 'Copy': ['Copy'], 'PartialEq': ['PartialEq', 'PartialEq(ignore)'], 'Eq': ['Eq', 'Eq(ignore)'],
              'PartialOrd': ['PartialOrd', 'PartialOrd(rank = 1)'], 'Ord': ['Ord', 'Ord(ignore)'], 'Hash': ['Hash', 'Hash(method(m))'], 'Default': ['Default', 'Default = 1'],
              'Deref': ['Deref'], 'DerefMut': ['DerefMut'], 'Into': ['Into(u8)']}


def named_traits(text):
    """the leading identifier of every top-level entry of every #[educe(...)] attribute in an item"""
    out = []
    i = 0
    while True:
        i = text.find('#[educe(', i)
        if i < 0:
            return out
        j = i + len('#[educe(')
        depth, start = 0, j
        while j < len(text):
            c = text[j]
            if c in '([{':
                depth += 1
            elif c in ')]}':
                if depth == 0:
                    break
                depth -= 1
            elif c == ',' and depth == 0:
                out.append(text[start:j].strip())
                start = j + 1
            elif c == '"':
                j = text.find('"', j + 1)
            j += 1
        out.append(text[start:j].strip())
        out[:] = [o for o in out if o]
        i = j
    return out


# parameters a trait accepts on a field (so that a field can carry the educed trait's own attribute before / after the stray one)
OWN_FIELD = {'Debug': 'Debug(name = k)', 'Clone': 'Clone(method(m))', 'PartialEq': 'PartialEq(ignore)', 'PartialOrd': 'PartialOrd(rank = 1)', 'Ord': 'Ord(ignore)', 'Hash': 'Hash(ignore)', 'Default': 'Default = 1',
             'Eq+PartialEq': 'Eq(ignore)', 'Ord+PartialOrd': 'PartialOrd(ignore)'}


def stray_corpus():
    """(E, D, base text, text with the stray attribute, position tag); E may be a coupled pair 'A+B'"""
    out = []
    for e in FEATS + ['Clone+Copy', 'Eq+PartialEq', 'Ord+PartialOrd', 'Deref+DerefMut']:
        if '+' in e:
            # coupled traits educed together: one handler leaves the field attributes to its partner
            es = e.split('+')
            tl = ', '.join(es)
            for d in FEATS:
                if d in es:
                    continue
                mk = '#[educe(Deref, DerefMut)] ' if e == 'Deref+DerefMut' else ''
                for form in STRAY_FORM[d][:1]:
                    st = '#[educe(%s)] ' % form
                    for pos, text in (('sn.f1', '#[derive(Educe)] #[educe(%s)] struct Ty { %sf0: u8, {S}f1: u8 }' % (tl, mk)), ('st.1', '#[derive(Educe)] #[educe(%s)] struct Ty(%su8, {S}u8);' % (tl, mk)),
                                      ('en.V0.1', '#[derive(Educe)] #[educe(%s)] enum Ty { V0(%su8, {S}u8), V1 { %sf0: u8, f1: u8 } }' % (tl, mk, mk)),
                                      ('en.V1.f1', '#[derive(Educe)] #[educe(%s)] enum Ty { V0(%su8, u8), V1 { %sf0: u8, {S}f1: u8 } }' % (tl, mk, mk))):
                        out.append((e, d, text.replace('{S}', ''), text.replace('{S}', st), pos + '|coupled'))
            continue
        tl = {'Into': 'Into(u8)'}.get(e, e)
        mark = {'Deref': 'Deref', 'DerefMut': 'DerefMut', 'Into': 'Into(u8)'}.get(e)      # field marker every element needs
        fm = ('#[educe(%s)] ' % mark) if mark else ''
        shapes = []
        # {S} is the stray slot; exactly one slot is filled per input
        shapes.append(('sn.f1', '#[derive(Educe)] #[educe(%s)] struct Ty { %sf0: u8, {S0}f1: u8 }' % (tl, fm)))
        shapes.append(('sn.f0', '#[derive(Educe)] #[educe(%s)] struct Ty { {S0}%sf0: u8, f1: u8 }' % (tl, fm)))
        shapes.append(('st.1', '#[derive(Educe)] #[educe(%s)] struct Ty(%su8, {S0}u8);' % (tl, fm)))
        for dv in ((0, 1) if e == 'Default' else (None,)):
            d0 = '#[educe(Default)] ' if dv == 0 else ''
            d1 = '#[educe(Default)] ' if dv == 1 else ''
            tag = '' if dv is None else '/default@V%d' % dv
            enum = '#[derive(Educe)] #[educe(%s)] enum Ty { {S2}%sV0(%su8, {S0}u8), {S3}%sV1 { %sf0: u8, {S1}f1: u8 }%s }' % (tl, d0, fm, d1, fm, '' if mark else ', {S4}V2')
            for k, pos in enumerate(('V0.1', 'V1.f1', 'V0', 'V1', 'V2')):
                if '{S%d}' % k in enum:
                    shapes.append(('en.' + pos + tag, enum.replace('{S%d}' % k, '{S0}').replace('{S1}', '').replace('{S2}', '').replace('{S3}', '').replace('{S4}', '')
                                   if k == 0 else enum.replace('{S0}', '').replace('{S%d}' % k, '{S0}').replace('{S1}', '').replace('{S2}', '').replace('{S3}', '').replace('{S4}', '')))
        d1 = '#[educe(Default)] ' if e == 'Default' else ''
        shapes.append(('en1.V0.0', '#[derive(Educe)] #[educe(%s)] enum Ty { %sV0({S0}u8), V1 { f0: u8 } }' % (tl, d1)))
        shapes.append(('en1.V1.f0', '#[derive(Educe)] #[educe(%s)] enum Ty { %sV0(u8), V1 { {S0}f0: u8 } }' % (tl, d1)))
        shapes.append(('en1.only', '#[derive(Educe)] #[educe(%s)] enum Ty { %sV0({S0}u8) }' % (tl, d1)))
        shapes.append(('sn1.f0', '#[derive(Educe)] #[educe(%s)] struct Ty { {S0}f0: u8 }' % tl))
        shapes.append(('st1.0', '#[derive(Educe)] #[educe(%s)] struct Ty({S0}u8);' % tl))
        if e in ('Debug', 'Clone', 'Copy', 'PartialEq', 'Eq', 'Hash', 'Default'):
            utl = {'Debug': 'Debug(unsafe)', 'PartialEq': 'PartialEq(unsafe)', 'Hash': 'Hash(unsafe)'}.get(e, e)
            shapes.append(('un.f1', '#[derive(Educe)] #[educe(%s)] union Ty { %sf0: u8, {S0}f1: u8 }' % (utl, '#[educe(Default)] ' if e == 'Default' else '')))
        for pos, text in shapes:
            base = text.replace('{S0}', '')
            for d in FEATS:
                if d == e:
                    continue
                for form in STRAY_FORM[d]:
                    out.append((e, d, base, text.replace('{S0}', '#[educe(%s)] ' % form), pos))
                # the educed trait with a type-level parameter of its own (explicit bound modes, names, `new`): the scan below type level may not depend on it
                if pos in ('sn.f1', 'st.1', 'en.V0.1', 'en.V1.f1', 'en.V0', 'en.V1', 'un.f1') or pos.startswith('en.V1.f1/') or pos.startswith('en.V0/'):
                    tlps = ['bound = false', 'bound(*)', 'bound(u8: Copy)'] if e not in ('Deref', 'DerefMut') else []
                    tlps += {'Debug': ['name = false'] + (['named_field = %s' % ('false' if pos.startswith('sn') else 'true')] if pos[:2] in ('sn', 'st') else []), 'Default': ['new']}.get(e, [])
                    for tp in tlps:
                        if pos == 'un.f1' and (tp.startswith('name') or e in ('Debug', 'PartialEq', 'Hash')):
                            continue        # (the union forms of these traits take no bound)
                        if e == 'Into':
                            t2 = text.replace('#[educe(Into(u8))] struct', '#[educe(Into(u8, %s))] struct' % tp, 1).replace('#[educe(Into(u8))] enum', '#[educe(Into(u8, %s))] enum' % tp, 1)
                        elif '#[educe(%s(unsafe))]' % e in text:
                            t2 = text.replace('#[educe(%s(unsafe))]' % e, '#[educe(%s(unsafe, %s))]' % (e, tp), 1)
                        else:
                            t2 = text.replace('#[derive(Educe)] #[educe(%s)]' % e, '#[derive(Educe)] #[educe(%s(%s))]' % (e, tp), 1)
                        if t2 == text:
                            continue
                        out.append((e, d, t2.replace('{S0}', ''), t2.replace('{S0}', '#[educe(%s)] ' % STRAY_FORM[d][0]), pos + '|tl:' + tp))
                # the educed trait's own parameter on the same field in an earlier / later attribute, foreign attributes in between
                if e in OWN_FIELD and pos in ('sn.f1', 'en.V1.f1', 'st.1', 'en.V0.1') and not (e == 'Debug' and pos in ('st.1', 'en.V0.1')):
                    own = '#[educe(%s)] ' % OWN_FIELD[e]
                    st = '#[educe(%s)] ' % STRAY_FORM[d][-1]
                    out.append((e, d, text.replace('{S0}', own), text.replace('{S0}', own + '#[allow(dead_code)] ' + st), pos + '|own-first'))
                    out.append((e, d, text.replace('{S0}', own), text.replace('{S0}', st + '#[doc = "d"] ' + own), pos + '|own-last'))
    return out


def check(v, tier):
    so, deps = core.build_macro()
    rustc, base = cargo_cmdline()
    lib = os.path.join(core.EDUCE_REPO, 'src', 'lib.rs')
    wdir = os.path.join(core.BUILD, 'c18-%d' % os.getpid())
    shutil.rmtree(wdir, ignore_errors=True)
    os.makedirs(wdir)
    try:
        # ---------------- build half
        subs = subsets(tier, 'build')

        def build_one(sub):
            cmd = [rustc] + base + ['--crate-type', 'proc-macro', '--emit=metadata', '--error-format=json', '-C', 'debuginfo=0',
                                    '--out-dir', os.path.join(wdir, 'm' + '_'.join(sub))]
            for f in sub:
                cmd += ['--cfg', 'feature="%s"' % f]
            cmd.append(lib)
            rc, out, err = core.run_proc(cmd, timeout=300, cwd=core.EDUCE_REPO)
            diags = []
            for l in err.splitlines():
                if l.startswith('{'):
                    try:
                        d = json.loads(l)
                    except Exception:
                        continue
                    if d.get('level') in ('error', 'warning') and not d.get('message', '').startswith('aborting') and 'warning emitted' not in d.get('message', '') and 'warnings emitted' not in d.get('message', ''):
                        diags.append((d['level'], d['message'][:300]))
            shutil.rmtree(os.path.join(wdir, 'm' + '_'.join(sub)), ignore_errors=True)
            return sub, rc, diags
        with cf.ThreadPoolExecutor(max_workers=core.JOBS) as ex:
            results = list(ex.map(build_one, subs))
        for sub, rc, diags in results:
            v.cov['states'] += 1
            v.cov['transitions'] += max(1, len(sub))
            v.cov['evaluations'] += 1
            case = Case('C18|build|' + '+'.join(sub), '// features: %s\n' % ', '.join(sub), {'features': list(sub)}, run=False, depth=len(sub))
            if not sub:
                ok = rc != 0 and any('at least one of the trait features must be enabled' in m for _, m in diags)
                if not ok:
                    v.violation(case, 'with no trait feature the crate must refuse to build with its explicit message; rc=%s diagnostics=%s' % (rc, diags[:3]))
                continue
            v.cov['traces_validated_against_impl'] += 1
            if rc != 0 or diags:
                v.violation(case, 'feature subset {%s} does not build cleanly: rc=%s %s' % (', '.join(sub), rc, diags[:3]))
        # ---------------- behaviour half
        binary_all = xp.build_xp()
        xp.init_canon(binary_all)
        corp = corpus()
        nplain = len(corp)
        stray = stray_corpus()
        bases = sorted({b for _, _, b, _, _ in stray})
        bref = xp.expand_all(binary_all, bases)
        badb = [(b, r.get('msg')) for b, r in zip(bases, bref) if r['st'] != 'ok']
        guard(not badb, 'stray-attribute corpus: a base request is refused by the all-features build: %s' % badb[:3])
        corp += [(frozenset(e.split('+') + [d]), t) for e, d, b, t, pos in stray]
        # requests the all-features build refuses (the C13 space): a build that has all the traits involved must refuse them with the same message
        import re
        from . import c13
        rej = c13.generate('quick')
        keep = [r_ for k, r_ in enumerate(rej) if r_[0] in ('trait-twice', 'trait-twice-field', 'into-twice', 'designation', 'unit-variant', 'union', 'debug-nameless') or k % 3 == 0]
        rtexts = sorted({r_[2] for r_ in keep if r_[0] != 'unknown-trait'})
        lenient = set()      # inputs that carry another offence besides (possibly) naming a disabled trait: whichever is met first may be reported
        rref = xp.expand_all(binary_all, rtexts)
        nrej = 0
        for t, r_ in zip(rtexts, rref):
            if r_['st'] == 'err' and 'available traits' not in r_.get('msg', ''):
                import re as _re
                used = frozenset(m.group(0) for m in (_re.match(r'[A-Za-z_][A-Za-z0-9_]*', e) for e in named_traits(t)) if m and m.group(0) in FEATS)
                if used:
                    corp.append((used, t))
                    lenient.add(t)
                    nrej += 1
        v.notes['refused_inputs_from_the_C13_space'] = nrej
        ref = xp.expand_all(binary_all, [t for _, t in corp])
        guard(sum(1 for r in ref[:nplain] if r['st'] == 'ok') > 0.9 * nplain, 'the all-features build refuses too much of the corpus')
        notused = sum(1 for r in ref[nplain:] if r['st'] == 'err' and 'is not used' in r.get('msg', ''))
        v.notes['stray_attribute_inputs'] = len(stray)
        v.notes['stray_refused_as_not_used_by_all_features_build'] = notused
        bsubs = [s for s in subsets(tier, 'behaviour') if s and len(s) < 12]
        xp_main = os.path.join(core.VERIF, 'xp', 'src', 'main.rs')
        # extern arguments for the driver: same dependency artefacts as educe itself
        ext = []
        i = 0
        while i < len(base):
            if base[i] == '--extern' and '=' in base[i + 1]:
                ext += ['--extern', base[i + 1]]
                i += 2
            elif base[i] == '-L':
                ext += ['-L', base[i + 1]]
                i += 2
            else:
                i += 1

        def behave(sub):
            d = os.path.join(wdir, 'b' + '_'.join(sub))
            os.makedirs(d, exist_ok=True)
            rl = os.path.join(d, 'libeduce.rlib')
            cmd = [rustc, '--crate-name', 'educe', '--edition=2021', '--crate-type', 'rlib', '-C', 'debuginfo=0', '-C', 'opt-level=0', '--cap-lints', 'allow',
                   '--cfg', core.GUARD, '-o', rl] + ext + ['--extern', 'proc_macro']
            for f in sub:
                cmd += ['--cfg', 'feature="%s"' % f]
            cmd.append(lib)
            rc, out, err = core.run_proc(cmd, timeout=600, cwd=core.EDUCE_REPO)
            if rc != 0:
                return sub, None, 'educe (rlib, hooks on) does not build: ' + err[-600:]
            exe = os.path.join(d, 'xp')
            cmd = [rustc, '--crate-name', 'xp', '--edition=2021', '--crate-type', 'bin', '-C', 'debuginfo=0', '-C', 'opt-level=0', '--cap-lints', 'allow',
                   '-o', exe, '--extern', 'educe=' + rl] + ext + [xp_main]
            rc, out, err = core.run_proc(cmd, timeout=600)
            if rc != 0:
                return sub, None, 'driver does not link: ' + err[-600:]
            reqs = [(str(k), 'x', t) for k, (u, t) in enumerate(corp)]
            res = xp.run_chunk(exe, reqs)
            shutil.rmtree(d, ignore_errors=True)
            return sub, res, None
        with cf.ThreadPoolExecutor(max_workers=core.JOBS) as ex:
            bres = list(ex.map(behave, bsubs))
        nontriv = 0
        for sub, res, err in bres:
            case = Case('C18|behave|' + '+'.join(sub), '// features: %s\n' % ', '.join(sub), {'features': list(sub)}, run=False, depth=len(sub))
            v.cov['states'] += 1
            v.cov['transitions'] += len(sub)
            if err:
                v.violation(case, err)
                continue
            same = refused = 0
            problem = None
            for (used, text), a, r in zip(corp, ref, res):
                v.cov['evaluations'] += 1
                if used <= set(sub):
                    if (r['st'], r.get('raw'), r.get('msg')) != (a['st'], a.get('raw'), a.get('msg')):
                        problem = problem or 'an input using only enabled traits {%s} expands differently than in the all-features build:\n%s\n all features: %s\n this subset:  %s' % (
                            ', '.join(sorted(used)), text, str((a['st'], a.get('raw') or a.get('msg')))[:500], str((r['st'], r.get('raw') or r.get('msg')))[:500])
                    same += 1
                else:
                    missing = [t for t in FEATS if t in used and t not in sub]
                    if text in lenient and r['st'] == 'err' and (r.get('msg') == a.get('msg') or 'unsupported trait' in r.get('msg', '')):
                        pass
                    elif r['st'] != 'err' or 'unsupported trait' not in r.get('msg', '') or not any('`%s`' % m in r['msg'].split('available traits')[0] for m in missing):
                        problem = problem or 'an input naming the disabled trait(s) %s is not rejected as unsupported: %s %s\n%s' % (missing, r['st'], (r.get('msg') or r.get('raw') or '')[:300], text)
                    refused += 1
            v.cov['traces_validated_against_impl'] += 1
            if same and refused:
                nontriv += 1
            if problem:
                case.body += problem
                v.violation(case, problem)
        v.cov['distinct_nontrivial'] = nontriv
        v.notes['build_subsets'] = len(subs)
        v.notes['behaviour_subsets'] = len(bsubs)
        v.notes['corpus'] = len(corp)
        v.sample({'features': list(bsubs[len(bsubs) // 2]), 'corpus_input': corp[len(corp) // 3][1]})
        v.sample({'features': list(subs[len(subs) // 3]), 'check': 'rustc --crate-type proc-macro --emit=metadata with cargo\'s own --check-cfg arguments'})
        if tier == 'quick':
            v.cap('quick tier: %d of 4096 subsets built, %d exercised' % (len(subs), len(bsubs)))
        else:
            v.cap('behaviour half exercised on %d of 4095 subsets (build half: all 4096)' % len(bsubs))
    finally:
        shutil.rmtree(wdir, ignore_errors=True)
    return v.finish('build half: feature subsets (quick: size <= 2, >= 10, every coupled pair with and without its partner in four contexts; thorough: all 4096) compiled as a '
                    'proc-macro crate with cargo\'s own extern / check-cfg arguments: no error, no warning; the empty set must fail with the explicit message. Behaviour half: for '
                    'a selection of subsets the crate is built as an rlib under the hook cfg and linked to the in-process driver; a corpus (every trait-group configuration and '
                    'pairs of groups on the catalogue shapes, stand-alone companions; and stray attributes: a request educing one trait E with one attribute naming another trait D on a struct field, tuple-struct field, tuple-variant field, named-variant field, variant (default and non-default variants under Default) or union field, every ordered pair (E, D) in bare and parameterised form) and requests the all-features build refuses, taken from the C13 space: duplicate traits / parameters / ranks / targets, wrong designations, misplaced parameters, ...) is expanded: inputs whose traits are all enabled must expand — or be refused — exactly as in the all-features '
                    'build, the others must be refused naming a disabled trait as unsupported; non-trivial = subset with both kinds of input',
                    {'bounds': {'tier': tier}})
def replay(path):
    """a C18 violation is a schedule / configuration of the whole exploration: the replay re-runs the quick exploration on the current tree"""
    import os
    os.environ['VERIF_EVIDENCE_DIR'] = os.path.join(core.BUILD, 'replay-evidence')
    return check(core.Verdict('C18', 'quick', 0), 'quick')
