"""C13 — contradictory, ambiguous or misplaced attributes are rejected, not guessed (engine RT, diagnostics)."""
import itertools

from .. import catalog as K
from ..core import Case, guard, rt_run

X = K.XShape
SN = X('struct', [('n', 3)])
ST = X('struct', [('t', 3)])
EN = X('enum', [('t', 3), ('n', 3)])
ENU = X('enum', [('u', 0), ('t', 2), ('n', 2)])
UN = X('union', [('n', 3)])
U1 = X('union', [('n', 1)])
ALLT = ['Debug', 'Clone', 'Copy', 'PartialEq', 'Eq', 'PartialOrd', 'Ord', 'Hash', 'Default', 'Deref', 'DerefMut', 'Into']


def base_traits(shape, traits):
    """type-level metas that make `traits` valid on `shape` (markers are added by the caller where needed)"""
    out = []
    for t in traits:
        if t == 'Into':
            out.append('Into(u8)')
        elif shape.kind == 'union' and t in ('Debug', 'PartialEq', 'Hash'):
            out.append('%s(unsafe)' % t)
        else:
            out.append(t)
    return out


def markers(shape, traits):
    """field / variant metas required so that the plain request is accepted"""
    f, v = {}, {}
    for t in traits:
        if t in ('Deref', 'DerefMut'):
            for vi, (s, n) in enumerate(shape.variants):
                if n > 1:
                    f.setdefault((vi, 0), []).append(t)
        if t == 'Into':
            for vi, (s, n) in enumerate(shape.variants):
                if n > 1:
                    f.setdefault((vi, 0), []).append('Into(u8)')
        if t == 'Default':
            if shape.kind == 'enum' and len(shape.variants) > 1:
                v.setdefault(0, []).append('Default')
            if shape.kind == 'union' and shape.variants[0][1] > 1:
                f.setdefault((0, 0), []).append('Default')
    return f, v


def req(shape, traits, extra_t=(), f=None, v=None, split='each', drop_markers=()):
    """build a request: valid base for `traits` plus extra metas"""
    bf, bv = markers(shape, [t for t in traits if t not in drop_markers])
    cfg = K.Config('', base_traits(shape, traits) + list(extra_t), bv, bf)
    for k, x in (f or {}).items():
        cfg.f.setdefault(k, []).extend(x)
    for k, x in (v or {}).items():
        cfg.v.setdefault(k, []).extend(x)
    return K.render(shape, cfg, split)


def behind_foreign(text, meta):
    """put a doc comment and a lint attribute in front of the (last) `#[educe(<meta>)]` line of a rendered request"""
    lines = text.split('\n')
    idx = [i for i, l in enumerate(lines) if l.strip() == '#[educe(%s)]' % meta]
    guard(idx, 'offending attribute %s not found on a line of its own' % meta)
    i = idx[-1]
    ind = lines[i][:len(lines[i]) - len(lines[i].lstrip())]
    lines[i:i] = [ind + '/// a doc comment', ind + '#[allow(dead_code)]']
    return '\n'.join(lines)


def supports(shape, t):
    if shape.kind == 'union':
        return t in ('Debug', 'Clone', 'Copy', 'PartialEq', 'Eq', 'Hash', 'Default')
    if t in ('Deref', 'DerefMut', 'Into'):
        return not shape.has_unit()
    return True


def generate(tier):
    R = []   # (class, key, bad text, twin text or None)

    def bad(cls, key, text, twin=None):
        R.append((cls, key, text, twin))

    shapes = [('sn', SN), ('st', ST), ('en', EN), ('un', UN)]
    # 1. a trait given twice -----------------------------------------------------------------------------
    forms = {'Debug': ['Debug', 'Debug(name = Zz)', 'Debug = Zz'], 'Clone': ['Clone', 'Clone(bound = false)'], 'Copy': ['Copy'],
             'PartialEq': ['PartialEq', 'PartialEq(bound = false)'], 'Eq': ['Eq'], 'PartialOrd': ['PartialOrd', 'PartialOrd(bound(u8: Copy))'],
             'Ord': ['Ord', 'Ord(bound = false)'], 'Hash': ['Hash', 'Hash(bound = false)'], 'Default': ['Default', 'Default(new)'],
             'Deref': ['Deref'], 'DerefMut': ['DerefMut']}
    for sk, sh in shapes:
        for t, fs in forms.items():
            if not supports(sh, t):
                continue
            if sh.kind == 'union' and t in ('Debug', 'PartialEq', 'Hash'):
                fs = ['%s(unsafe)' % t]
            others = {'Copy': ['Clone'], 'Eq': ['PartialEq'], 'Ord': ['PartialOrd', 'PartialEq', 'Eq'], 'PartialOrd': ['PartialEq'], 'DerefMut': ['Deref']}.get(t, [])
            others = [o for o in others if supports(sh, o)]
            for a, b in itertools.product(fs, repeat=2):
                for sep in ('list', 'attrs', 'far'):
                    bf, bv = markers(sh, [t] + others)
                    ot = base_traits(sh, others)
                    if sep == 'list':
                        tl = ot + ['%s, %s' % (a, b)]
                    elif sep == 'attrs':
                        tl = [a] + ot + [b]
                    else:
                        tl = [a, b] + ot
                    cfg = K.Config('', tl, bv, bf)
                    tw = K.Config('', ot + [a], bv, bf)
                    bad('trait-twice', '%s|%s|%s+%s|%s' % (sk, t, a, b, sep), K.render(sh, cfg), K.render(sh, tw))
    # a trait's attribute twice on a field / variant
    for sk, sh in shapes[:3]:
        for t, metas in (('Debug', ['Debug(ignore)', 'Debug(method(fmt_m))']), ('PartialEq', ['PartialEq(ignore)', 'PartialEq = false']), ('Hash', ['Hash(ignore)', 'Hash(method(h))']),
                         ('PartialOrd', ['PartialOrd(ignore)', 'PartialOrd(rank = 1)']), ('Ord', ['Ord(ignore)', 'Ord(rank = 4)']), ('Clone', ['Clone(method(c))', 'Clone(method(c))']),
                         ('Default', ['Default = 1', 'Default(expression = 2)']), ('Deref', ['Deref', 'Deref']), ('DerefMut', ['DerefMut', 'DerefMut'])):
            for pos in sh.positions()[::2]:
                traits = [t] + {'Ord': ['PartialEq', 'Eq', 'PartialOrd'], 'PartialOrd': ['PartialEq'], 'DerefMut': ['Deref']}.get(t, [])
                drop = [t] if t in ('Deref', 'DerefMut') else []
                v = {pos[0]: ['Default']} if (t == 'Default' and sh.kind == 'enum') else None
                dm = ['Default'] if t == 'Default' and sh.kind == 'enum' else drop
                for sep in ('list', 'attrs'):
                    fm = {pos: ['%s, %s' % (metas[0], metas[1])] if sep == 'list' else [metas[0], metas[1]]}
                    other = {(vi, 0): [t] for vi, (s, n) in enumerate(sh.variants) if vi != pos[0]} if t in ('Deref', 'DerefMut') else {}
                    fm2 = dict(fm)
                    fm2.update(other)
                    tw = {pos: [metas[0]]}
                    tw.update(other)
                    bad('trait-twice-field', '%s|%s|%s|%s' % (sk, t, pos, sep), req(sh, traits, f=fm2, v=v, drop_markers=dm), req(sh, traits, f=tw, v=v, drop_markers=dm))
    # Eq(..) and PartialEq(..) on the same field when both are educed; Ord(..) and PartialOrd(..) likewise
    for sk, sh in shapes[:3]:
        for pos in sh.positions()[::2]:
            bad('trait-twice-field', '%s|Eq+PartialEq|%s' % (sk, pos), req(sh, ['PartialEq', 'Eq'], f={pos: ['PartialEq(ignore)', 'Eq(ignore)']}), req(sh, ['PartialEq', 'Eq'], f={pos: ['Eq(ignore)']}))
            bad('trait-twice-field', '%s|Ord+PartialOrd|%s' % (sk, pos), req(sh, ['PartialEq', 'Eq', 'PartialOrd', 'Ord'], f={pos: ['Ord(ignore)', 'PartialOrd(ignore)']}),
                req(sh, ['PartialEq', 'Eq', 'PartialOrd', 'Ord'], f={pos: ['PartialOrd(ignore)']}))
    # 2. a parameter given twice ---------------------------------------------------------------------------
    dup_type = [('Debug', 'name = A', 'name = B'), ('Debug', 'name = A', 'rename = B'), ('Debug', 'rename(A)', 'name(false)'), ('Debug', 'bound = false', 'bound(u8: Copy)'),
                ('Clone', 'bound = false', 'bound = false'), ('PartialEq', 'bound(u8: Copy)', 'bound = false'), ('Hash', 'bound = false', 'bound(*)'),
                ('PartialOrd', 'bound = false', 'bound = ""'), ('Ord', 'bound(*)', 'bound(*)'), ('Default', 'new', 'new'), ('Default', 'new', 'new = false'),
                ('Default', 'bound = false', 'bound(*)'), ('Copy', 'bound = false', 'bound = false'), ('Eq', 'bound = false', 'bound(*)')]
    for sk, sh in shapes[:3]:
        for t, a, b in dup_type:
            others = {'Ord': ['PartialEq', 'Eq', 'PartialOrd'], 'PartialOrd': ['PartialEq'], 'Copy': [], 'Eq': []}.get(t, [])
            bf, bv = markers(sh, [t] + others)
            for order in (0, 1):
                x, y = (a, b) if order == 0 else (b, a)
                cfg = K.Config('', base_traits(sh, others) + ['%s(%s, %s)' % (t, x, y)], bv, bf)
                tw = K.Config('', base_traits(sh, others) + ['%s(%s)' % (t, x)], bv, bf)
                bad('param-twice', '%s|%s|%s,%s' % (sk, t, x, y), K.render(sh, cfg), K.render(sh, tw))
        if sh.kind == 'struct':
            bad('param-twice', '%s|Debug|named_field' % sk, req(sh, [], ['Debug(named_field = true, named_field = false)']), req(sh, [], ['Debug(named_field = true)']))
            bad('param-twice', '%s|Default|expression' % sk, req(sh, [], ['Default(expression = Ty::f(), expr = Ty::g())']), req(sh, [], ['Default(expression = Ty::f())']))
        else:
            bad('param-twice', '%s|Debug-variant|name' % sk, req(sh, ['Debug'], v={1: ['Debug(name = A, rename = B)']}), req(sh, ['Debug'], v={1: ['Debug(name = A)']}))
            bad('param-twice', '%s|Debug-variant|named_field' % sk, req(sh, ['Debug'], v={0: ['Debug(named_field = true, named_field = true)']}), req(sh, ['Debug'], v={0: ['Debug(named_field = true)']}))
    dup_field = [('Debug', 'ignore', 'ignore'), ('Debug', 'ignore', 'ignore = false'), ('Debug', 'method(a)', 'method(b)'), ('Debug', 'method = "a"', 'method(a)'),
                 ('PartialEq', 'ignore', 'ignore(true)'), ('PartialEq', 'method(a)', 'method(a)'), ('Hash', 'ignore', 'ignore'), ('Hash', 'method(a)', 'method = "b"'),
                 ('PartialOrd', 'rank = 1', 'rank = 2'), ('PartialOrd', 'rank = 1', 'rank(1)'), ('PartialOrd', 'ignore', 'ignore'), ('PartialOrd', 'method(a)', 'method(b)'),
                 ('Ord', 'rank = 1', 'rank = "1"'), ('Ord', 'method(a)', 'method(b)'), ('Ord', 'ignore = true', 'ignore'), ('Clone', 'method(a)', 'method(b)'),
                 ('Default', 'expression = 1', 'expression = 2'), ('Default', 'expression = 1', 'expr = 1'), ('Default', 'expr(1)', 'expression(2)'),
                 ('Into', 'method(a)', 'method(b)')]
    # every ordered pair of spellings of a flag (the second mention must be refused whatever the first one's value was), and every listed pair in both orders
    flag_sp = ['ignore', 'ignore = true', 'ignore(true)', 'ignore = false', 'ignore(false)']
    have = set(dup_field)
    for t in ('Debug', 'PartialEq', 'Hash', 'PartialOrd', 'Ord', 'PartialOrd@both', 'Eq'):
        for a, b in itertools.product(flag_sp, repeat=2):
            if (t, a, b) not in have:
                have.add((t, a, b))
                dup_field.append((t, a, b))
    for t, a, b in list(dup_field):
        if (t, b, a) not in have:
            have.add((t, b, a))
            dup_field.append((t, b, a))
    for sk, sh in shapes[:3]:
        for t, a, b in dup_field:
            for pos in (sh.positions()[0], sh.positions()[-1]):
                others = {'Ord': ['PartialEq', 'Eq', 'PartialOrd'], 'PartialOrd': ['PartialEq'], 'PartialOrd@both': ['PartialEq', 'Eq', 'Ord'], 'Eq': ['PartialEq']}.get(t, [])
                tag = t
                t = t.split('@')[0]
                v = {pos[0]: ['Default']} if (t == 'Default' and sh.kind == 'enum') else None
                dm = ['Default'] if v else []
                if t == 'Into':
                    mk = lambda ps: {p: (['Into(u8, %s)' % ps] if p == pos else ['Into(u8)']) for p in [pos] + [(vi, 0) for vi, (s, n) in enumerate(sh.variants) if vi != pos[0]]}
                    bad('param-twice', '%s|Into-field|%s|%s,%s' % (sk, pos, a, b), req(sh, ['Into'], f=mk('%s, %s' % (a, b)), drop_markers=['Into']), req(sh, ['Into'], f=mk(a), drop_markers=['Into']))
                    continue
                bad('param-twice', '%s|%s-field|%s|%s,%s' % (sk, tag, pos, a, b), req(sh, [t] + others, f={pos: ['%s(%s, %s)' % (t, a, b)]}, v=v, drop_markers=dm),
                    req(sh, [t] + others, f={pos: ['%s(%s)' % (t, a)]}, v=v, drop_markers=dm))
    # named field: name twice
    for pos in ((0, 0), (0, 2)):
        bad('param-twice', 'sn|Debug-field|%s|name' % (pos,), req(SN, ['Debug'], f={pos: ['Debug(name = a, rename = b)']}), req(SN, ['Debug'], f={pos: ['Debug(name = a)']}))
    bad('param-twice', 'en|Debug-field|name', req(EN, ['Debug'], f={(1, 1): ['Debug(rename = a, rename = a)']}), req(EN, ['Debug'], f={(1, 1): ['Debug(rename = a)']}))
    # 3. a rank given twice ---------------------------------------------------------------------------------
    MINR = -(1 << 63)
    for sk, sh in shapes[:3]:
        for traits, carrier in ((['PartialEq', 'PartialOrd'], 'PartialOrd'), (['PartialEq', 'Eq', 'PartialOrd', 'Ord'], 'Ord'), (['PartialEq', 'Eq', 'PartialOrd', 'Ord'], 'PartialOrd'),
                                (['PartialEq', 'Eq', 'Ord'], 'Ord')):
            for vi, (s, n) in enumerate(sh.variants):
                for i, j in itertools.combinations(range(n), 2):
                    for sp in ('rank = 3', 'rank(3)', 'rank = "3"'):
                        bad('rank-twice', '%s|%s|v%d|%d=%d|%s' % (sk, carrier, vi, i, j, sp), req(sh, traits, f={(vi, i): ['%s(%s)' % (carrier, sp)], (vi, j): ['%s(rank = 3)' % carrier]}),
                            req(sh, traits, f={(vi, i): ['%s(%s)' % (carrier, sp)], (vi, j): ['%s(rank = 4)' % carrier]}))
                    # explicit rank equal to another field's default rank (isize::MIN + index)
                    bad('rank-twice', '%s|%s|v%d|explicit%d=default%d' % (sk, carrier, vi, i, j), req(sh, traits, f={(vi, i): ['%s(rank = %d)' % (carrier, MINR + j)]}),
                        req(sh, traits, f={(vi, i): ['%s(rank = %d)' % (carrier, MINR + 7)]}))
                    bad('rank-twice', '%s|%s|v%d|explicit%d=default%d' % (sk, carrier, vi, j, i), req(sh, traits, f={(vi, j): ['%s(rank = "%d")' % (carrier, MINR + i)]}),
                        req(sh, traits, f={(vi, j): ['%s(rank = "%d")' % (carrier, MINR + 9)]}))
    # the same on five-field elements: every pair of positions
    SN5, EN5 = X('struct', [('n', 5)]), X('enum', [('t', 1), ('u', 0), ('n', 5), ('t', 5)])
    for sk, sh in (('sn5', SN5), ('en5', EN5)):
        for traits, carrier in ((['PartialEq', 'PartialOrd'], 'PartialOrd'), (['PartialEq', 'Eq', 'PartialOrd', 'Ord'], 'Ord')):
            for vi, (s_, n) in enumerate(sh.variants):
                if n < 5:
                    continue
                for i, j in itertools.combinations(range(n), 2):
                    bad('rank-twice', '%s|%s|v%d|%d=%d' % (sk, carrier, vi, i, j), req(sh, traits, f={(vi, i): ['%s(rank = 7)' % carrier], (vi, j): ['%s(rank(7))' % carrier]}),
                        req(sh, traits, f={(vi, i): ['%s(rank = 7)' % carrier], (vi, j): ['%s(rank(8))' % carrier]}))
                    bad('rank-twice', '%s|%s|v%d|explicit%d=default%d' % (sk, carrier, vi, i, j), req(sh, traits, f={(vi, i): ['%s(rank = %d)' % (carrier, MINR + j)]}),
                        req(sh, traits, f={(vi, i): ['%s(rank = %d)' % (carrier, MINR + 11)]}))
    # 4. an Into target given twice -------------------------------------------------------------------------
    for sk, sh in shapes[:3]:
        bf, bv = markers(sh, ['Into'])
        for tl in (['Into(u8), Into(u8)'], ['Into(u8)', 'Into(u8)'], ['Into(u8)', 'Into(u16)', 'Into(u8, bound = false)'], ["Into(&'static str)", 'Into(&str)'], ['Into(Vec<u8>)', 'Into(Vec < u8 >)']):
            f2 = {k: [m.replace('u8', tl[0].split(',')[0][5:-1] if False else 'u8') for m in x] for k, x in bf.items()}
            if 'str' in tl[0]:
                f2 = {k: ["Into(&'static str)"] for k in bf}
            if 'Vec' in tl[0]:
                f2 = {k: ['Into(Vec<u8>)'] for k in bf}
            extra = {k: ['Into(u16)'] for k in bf} if 'Into(u16)' in tl else {}
            cfg = K.Config('', tl, {}, {k: f2[k] + extra.get(k, []) for k in f2})
            tw = K.Config('', tl[:1] if ',' not in tl[0] else [tl[0].split(', ')[0]], {}, f2)
            bad('into-twice', '%s|type|%s' % (sk, '+'.join(tl)), K.render(sh, cfg), K.render(sh, tw))
        for vi, (s, n) in enumerate(sh.variants):
            for i, j in itertools.combinations(range(n), 2):
                f = {(w, 0): ['Into(u8)'] for w in range(len(sh.variants)) if w != vi}
                fb = dict(f)
                fb[(vi, i)] = ['Into(u8)']
                fb[(vi, j)] = ['Into(u8, method(m))']
                ft = dict(f)
                ft[(vi, i)] = ['Into(u8)']
                bad('into-twice', '%s|fields|v%d|%d,%d' % (sk, vi, i, j), req(sh, ['Into'], f=fb, drop_markers=['Into']), req(sh, ['Into'], f=ft, drop_markers=['Into']))
            f = {(w, 0): ['Into(u8)'] for w in range(len(sh.variants)) if w != vi}
            fb = dict(f)
            fb[(vi, 1)] = ['Into(u8), Into(u8)']
            bad('into-twice', '%s|same-field|v%d' % (sk, vi), req(sh, ['Into'], f=fb, drop_markers=['Into']))
            fb = dict(f)
            fb[(vi, 1)] = ['Into(u8)', 'Into(u8, method(m))']
            bad('into-twice', '%s|same-field-attrs|v%d' % (sk, vi), req(sh, ['Into'], f=fb, drop_markers=['Into']))
    # 5. designation missing or duplicated --------------------------------------------------------------------
    for vn in (2, 3):
        for styles in itertools.product('utn', repeat=vn):
            sh = X('enum', [(s, 0 if s == 'u' else 1) for s in styles])
            bad('designation', 'default-variant|none|%s' % ''.join(styles), req(sh, ['Default'], drop_markers=['Default']), req(sh, ['Default']))
            for i, j in itertools.combinations(range(vn), 2):
                bad('designation', 'default-variant|two|%s|%d,%d' % (''.join(styles), i, j), req(sh, ['Default'], v={i: ['Default'], j: ['Default']}, drop_markers=['Default']),
                    req(sh, ['Default'], v={i: ['Default']}, drop_markers=['Default']))
    for nf in (2, 3):
        sh = X('union', [('n', nf)])
        bad('designation', 'default-union|none|%d' % nf, req(sh, ['Default'], drop_markers=['Default']), req(sh, ['Default']))
        for i, j in itertools.combinations(range(nf), 2):
            for mi, mj in (('Default', 'Default'), ('Default = 1', 'Default'), ('Default', 'Default(expression = 2)'), ('Default = 1', 'Default = 2')):
                bad('designation', 'default-union|two|%d|%d,%d|%s,%s' % (nf, i, j, mi, mj), req(sh, ['Default'], f={(0, i): [mi], (0, j): [mj]}, drop_markers=['Default']),
                    req(sh, ['Default'], f={(0, i): [mi]}, drop_markers=['Default']))
    for t in ('Deref', 'DerefMut'):
        traits = ['Deref'] if t == 'Deref' else ['Deref', 'DerefMut']
        for sk, sh in shapes[:3]:
            for vi, (s, n) in enumerate(sh.variants):
                fo = {(w, 0): traits for w in range(len(sh.variants)) if w != vi}
                fn_ = dict(fo)
                if t == 'DerefMut':
                    fn_[(vi, 0)] = ['Deref']
                tw = dict(fo)
                tw[(vi, 0)] = traits
                bad('designation', '%s|none|%s|v%d' % (t, sk, vi), req(sh, traits, f=fn_, drop_markers=traits), req(sh, traits, f=tw, drop_markers=traits))
                for i, j in itertools.combinations(range(n), 2):
                    fb = dict(fo)
                    fb[(vi, i)] = traits
                    fb[(vi, j)] = [t]
                    bad('designation', '%s|two|%s|v%d|%d,%d' % (t, sk, vi, i, j), req(sh, traits, f=fb, drop_markers=traits), req(sh, traits, f=tw, drop_markers=traits))
    for t in ('Deref', 'DerefMut', 'Into(u8)'):
        traits = {'Deref': ['Deref'], 'DerefMut': ['Deref', 'DerefMut'], 'Into(u8)': ['Into']}[t]
        sh = X('enum', [('t', 1), ('n', 5), ('t', 5)])
        for vi in (1, 2):
            fo = {(w, 0): [m for m in (['Deref'] if 'Deref' in traits else []) + (['DerefMut'] if 'DerefMut' in traits else []) + (['Into(u8)'] if 'Into' in traits else [])]
                  for w in range(3) if w != vi and sh.variants[w][1] > 1}
            for i, j in itertools.combinations(range(5), 2):
                fb = dict(fo)
                fb[(vi, i)] = fo.get((2 if vi == 1 else 1, 0), [t]) if False else [m for m in (['Deref'] if 'Deref' in traits else []) + (['DerefMut'] if 'DerefMut' in traits else []) + (['Into(u8)'] if 'Into' in traits else [])]
                fb[(vi, j)] = [t]
                tw = dict(fb)
                del tw[(vi, j)]
                bad('designation', '%s|two|en5|v%d|%d,%d' % (t, vi, i, j), req(sh, traits, f=fb, drop_markers=traits), req(sh, traits, f=tw, drop_markers=traits))
    for sk, sh in shapes[:3]:
        for vi, (s, n) in enumerate(sh.variants):
            fo = {(w, 0): ['Into(u8)'] for w in range(len(sh.variants)) if w != vi}
            tw = dict(fo)
            tw[(vi, 0)] = ['Into(u8)']
            # no marker: all fields have the target type (3 candidates), or only 2 of them, or none of them
            for tys, tag in ((['u8', 'u8', 'u8'], '3same'), (['u8', 'u16', 'u8'], '2same'), (['u16', 'u32', 'u16'], '0same'), (['u8', 'u8', 'u16'], '2same-first')):
                ft = {(vi, k): ty for k, ty in enumerate(tys)}
                cfgb = K.Config('', ['Into(u8)'], {}, fo, ft)
                cfgt = K.Config('', ['Into(u8)'], {}, tw, ft)
                bad('designation', 'Into|none|%s|v%d|%s' % (sk, vi, tag), K.render(sh, cfgb), K.render(sh, cfgt))
    # field-level Into target that is not requested at type level
    for sk, sh in shapes[:3]:
        bf, bv = markers(sh, ['Into'])
        f = {k: x + ['Into(u16)'] for k, x in bf.items()}
        bad('designation', 'Into|field-target-not-requested|%s' % sk, K.render(sh, K.Config('', ['Into(u8)'], {}, f)), K.render(sh, K.Config('', ['Into(u8)', 'Into(u16)'], {}, f)))
    # 6. attribute for a trait that is not educed / unknown trait / unknown or misplaced parameter -----------------
    field_meta = {'Debug': 'Debug(ignore)', 'Clone': 'Clone(method(c))', 'PartialEq': 'PartialEq(ignore)', 'Eq': 'Eq(ignore)', 'PartialOrd': 'PartialOrd(ignore)', 'Ord': 'Ord(ignore)',
                  'Hash': 'Hash(ignore)', 'Default': 'Default = 1', 'Deref': 'Deref', 'DerefMut': 'DerefMut', 'Into': 'Into(u8)', 'Copy': 'Copy'}
    hosts = [['Debug'], ['Clone'], ['PartialEq'], ['Hash'], ['Default'], ['PartialEq', 'PartialOrd'], ['PartialEq', 'Eq', 'PartialOrd', 'Ord'], ['Copy', 'Clone'], ['PartialEq', 'Eq'], ['Deref'], ['Into']]
    for sk, sh in shapes[:3]:
        for host in hosts:
            if not all(supports(sh, t) for t in host):
                continue
            for t, m in field_meta.items():
                if t in host:
                    continue
                for pos in (sh.positions()[0], sh.positions()[-1]):
                    bad('trait-not-used', '%s|%s|field%s|%s' % (sk, '+'.join(host), pos, t), req(sh, host, f={pos: [m]}), req(sh, host))
                    # the same offending attribute behind attributes of other tools (a doc comment, a lint attribute) at that position
                    bad('trait-not-used', '%s|%s|field%s|%s|behind-foreign' % (sk, '+'.join(host), pos, t), behind_foreign(req(sh, host, f={pos: [m]}), m), req(sh, host))
                if sh.kind == 'enum':
                    vm = {'Debug': 'Debug(name = A)', 'Default': 'Default'}.get(t, t)
                    bad('trait-not-used', '%s|%s|variant|%s' % (sk, '+'.join(host), t), req(sh, host, v={1: [vm]}), req(sh, host))
                    bad('trait-not-used', '%s|%s|variant|%s|behind-foreign' % (sk, '+'.join(host), t), behind_foreign(req(sh, host, v={1: [vm]}), vm), req(sh, host))
    for sk, sh in shapes:
        for name in ('Foo', 'debug', 'Partialeq', 'std::fmt::Debug', 'Display'):
            bad('unknown-trait', '%s|type|%s' % (sk, name), req(sh, ['Clone', 'Copy'], [name]), req(sh, ['Clone', 'Copy']))
            pos = sh.positions()[-1]
            bad('unknown-trait', '%s|field|%s' % (sk, name), req(sh, ['Clone', 'Copy'], f={pos: [name]}), req(sh, ['Clone', 'Copy']))
            if sh.kind == 'enum':
                bad('unknown-trait', '%s|variant|%s' % (sk, name), req(sh, ['Clone', 'Copy'], v={0: [name]}), req(sh, ['Clone', 'Copy']))
    unk_type = {'Debug': ['foo', 'ignore', 'method(m)', 'rank = 1', 'new', 'expression = 1'], 'Clone': ['name = A', 'ignore', 'method(m)', 'unsafe'], 'Copy': ['method(m)', 'foo'],
                'PartialEq': ['name = A', 'ignore', 'rank = 1', 'foo = 1'], 'Eq': ['ignore', 'foo'], 'PartialOrd': ['rank = 1', 'ignore', 'name = A'], 'Ord': ['rank = 1', 'method(m)', 'foo'],
                'Hash': ['ignore', 'method(m)', 'name = A'], 'Default': ['name = A', 'ignore', 'method(m)', 'foo'], 'Deref': ['foo', 'bound = false'], 'DerefMut': ['bound = false'],
                'Into': ['name = A', 'method(m)', 'ignore']}
    for sk, sh in shapes[:3]:
        for t, ps in unk_type.items():
            others = {'Ord': ['PartialEq', 'Eq', 'PartialOrd'], 'PartialOrd': ['PartialEq'], 'DerefMut': ['Deref']}.get(t, [])
            for p in ps:
                bf, bv = markers(sh, [t] + others)
                if t == 'Into':
                    tl = base_traits(sh, others) + ['Into(u8, %s)' % p]
                else:
                    tl = base_traits(sh, others) + ['%s(%s)' % (t, p)]
                bad('bad-parameter', '%s|type|%s|%s' % (sk, t, p), K.render(sh, K.Config('', tl, bv, bf)), req(sh, [t] + others))
        if sh.kind == 'struct':
            for t in ('Deref', 'DerefMut', 'Copy', 'Clone', 'PartialEq', 'Hash', 'Default', 'Eq', 'PartialOrd', 'Ord'):
                others = {'Ord': ['PartialEq', 'Eq', 'PartialOrd'], 'PartialOrd': ['PartialEq'], 'DerefMut': ['Deref']}.get(t, [])
                bf, bv = markers(sh, [t] + others)
                bad('bad-parameter', '%s|type-namevalue|%s' % (sk, t), K.render(sh, K.Config('', base_traits(sh, others) + ['%s = 1' % t], bv, bf)), req(sh, [t] + others))
    unk_field = {'Debug': ['foo', 'bound = false', 'rank = 1', 'named_field = true', 'new'], 'Clone': ['ignore', 'name = a', 'bound = false'], 'PartialEq': ['rank = 1', 'name = a', 'bound = false', 'foo'],
                 'Eq': ['rank = 1', 'foo'], 'PartialOrd': ['name = a', 'bound = false', 'foo'], 'Ord': ['name = a', 'new'], 'Hash': ['rank = 1', 'name = a', 'bound(*)'],
                 'Default': ['ignore', 'method(m)', 'new', 'bound = false'], 'Into': ['ignore', 'bound = false', 'name = a']}
    for sk, sh in shapes[:3]:
        for t, ps in unk_field.items():
            hostt = {'Eq': ['PartialEq', 'Eq'], 'Ord': ['PartialEq', 'Eq', 'PartialOrd', 'Ord'], 'PartialOrd': ['PartialEq', 'PartialOrd']}.get(t, [t])
            for p in ps:
                for pos in (sh.positions()[0], sh.positions()[-1]):
                    v = {pos[0]: ['Default']} if (t == 'Default' and sh.kind == 'enum') else None
                    dm = ['Default'] if v else []
                    if t == 'Into':
                        f = {(vi, 0): ['Into(u8)'] for vi in range(len(sh.variants)) if vi != pos[0]}
                        f[pos] = ['Into(u8, %s)' % p]
                        tw = dict(f)
                        tw[pos] = ['Into(u8)']
                        bad('bad-parameter', '%s|field%s|Into|%s' % (sk, pos, p), req(sh, ['Into'], f=f, drop_markers=['Into']), req(sh, ['Into'], f=tw, drop_markers=['Into']))
                    else:
                        bad('bad-parameter', '%s|field%s|%s|%s' % (sk, pos, t, p), req(sh, hostt, f={pos: ['%s(%s)' % (t, p)]}, v=v, drop_markers=dm), req(sh, hostt, v=v, drop_markers=dm))
        for t in ('Clone', 'Hash', 'PartialEq', 'Deref', 'Default', 'Debug'):
            hostt = [t]
            for pos in (sh.positions()[0], sh.positions()[-1]):
                if t == 'Default' and sh.kind == 'enum':
                    continue
                if t == 'Deref':
                    f = {(vi, 0): ['Deref'] for vi in range(len(sh.variants)) if vi != pos[0]}
                    f[pos] = ['Deref(x)']
                    tw = dict(f)
                    tw[pos] = ['Deref']
                    bad('bad-parameter', '%s|field%s|Deref|list' % (sk, pos), req(sh, ['Deref'], f=f, drop_markers=['Deref']), req(sh, ['Deref'], f=tw, drop_markers=['Deref']))
                else:
                    bad('bad-parameter', '%s|field%s|%s|flag' % (sk, pos, t), req(sh, hostt, f={pos: [t]}), req(sh, hostt))
    # `name` on a positionally shown field, in every spelling
    for sp in ('Debug = kk', 'Debug(name = kk)', 'Debug(name(kk))', 'Debug(rename = kk)', 'Debug(rename("kk"))', 'Debug(name = kk, method(m))'):
        for pos in ((0, 0), (0, 2)):
            bad('bad-position', 'st|name-on-positional|%s|%s' % (pos, sp), req(ST, ['Debug'], f={pos: [sp]}), req(ST, ['Debug']))
            bad('bad-position', 'sn-flipped|name-on-positional|%s|%s' % (pos, sp), req(SN, [], ['Debug(named_field = false)'], f={pos: [sp]}), req(SN, [], ['Debug(named_field = false)']))
            bad('bad-position', 'en-tuple|name-on-positional|%s|%s' % (pos, sp), req(EN, ['Debug'], f={pos: [sp]}), req(EN, ['Debug']))
            bad('bad-position', 'en-named-flipped|name-on-positional|%s|%s' % (pos, sp), req(EN, ['Debug'], v={1: ['Debug(named_field = false)']}, f={(1, pos[1]): [sp]}),
                req(EN, ['Debug'], v={1: ['Debug(named_field = false)']}))
    # union fields accept no parameters
    for t, ms in (('Debug', ['Debug(ignore)', 'Debug = false', 'Debug(method(m))', 'Debug(name = a)', 'Debug = a']), ('PartialEq', ['PartialEq(ignore)', 'PartialEq = false', 'PartialEq(method(m))']),
                  ('Hash', ['Hash(ignore)', 'Hash(method(m))', 'Hash = false']), ('Clone', ['Clone(method(c))']), ('Eq', ['Eq(ignore)'])):
        for m in ms:
            for pos in ((0, 0), (0, 2)):
                host = {'Clone': ['Copy', 'Clone'], 'Eq': ['PartialEq', 'Eq']}.get(t, [t])
                bad('bad-position', 'un|field%s|%s' % (pos, m), req(UN, host, f={pos: [m]}), req(UN, host))
    # parameters that a variant does not take
    for t, ms in (('Debug', ['Debug', 'Debug(bound = false)', 'Debug(unsafe)']), ('PartialEq', ['PartialEq', 'PartialEq(bound = false)', 'PartialEq(ignore)']), ('Hash', ['Hash', 'Hash(bound(*))']),
                  ('Clone', ['Clone', 'Clone(bound = false)', 'Clone(method(m))']), ('PartialOrd', ['PartialOrd', 'PartialOrd(bound = false)', 'PartialOrd(rank = 1)']), ('Ord', ['Ord', 'Ord(bound = false)']),
                  ('Default', ['Default(new)', 'Default(bound = false)', 'Default(expression = 1)', 'Default = 1']), ('Deref', ['Deref']), ('DerefMut', ['DerefMut']), ('Into', ['Into(u8)']),
                  ('Eq', ['Eq', 'Eq(bound = false)']), ('Copy', ['Copy'])):
        host = {'Ord': ['PartialEq', 'Eq', 'PartialOrd', 'Ord'], 'PartialOrd': ['PartialEq', 'PartialOrd'], 'DerefMut': ['Deref', 'DerefMut'], 'Eq': ['Eq'], 'Copy': ['Copy']}.get(t, [t])
        for m in ms:
            for vi in (0, 1):
                bad('bad-position', 'en|variant%d|%s' % (vi, m), req(EN, host, v={vi: [m]}), req(EN, host))
    both = ['PartialEq', 'Eq', 'PartialOrd', 'Ord']
    for m in ('PartialOrd', 'PartialOrd(bound = false)', 'PartialOrd(bound(u8: Copy))', 'PartialOrd(rank = 1)', 'PartialOrd(ignore)', 'Ord', 'Ord(bound = false)', 'Ord(rank = 1)', 'Eq', 'Eq(bound = false)', 'PartialEq(bound = false)'):
        for vi in (0, 1):
            bad('bad-position', 'en|variant%d|both-ord|%s' % (vi, m), req(EN, both, v={vi: [m]}), req(EN, both))
    # named_field at enum level, flag-only forms where a value is needed
    bad('bad-position', 'en|type|named_field', req(EN, [], ['Debug(named_field = true)']), req(EN, ['Debug']))
    bad('bad-position', 'en|type|named_field(false)', req(EN, [], ['Debug(named_field(false))']), req(EN, ['Debug']))
    # nothing below a type-level Default expression
    for sk, sh, e in (('sn', SN, 'Ty { f0: 1, f1: 2, f2: 3 }'), ('st', ST, 'Ty(1, 2, 3)'), ('en', EN, 'Ty::V0(1, 2, 3)'), ('un', UN, 'Ty { f0: 1 }')):
        for m in ('Default = 1', 'Default(expression = 2)'):
            for pos in (sh.positions()[0], sh.positions()[-1]):
                bad('bad-position', '%s|field-under-type-expression|%s|%s' % (sk, pos, m), K.render(sh, K.Config('', ['Default(expression = %s)' % e], {}, {pos: [m]})),
                    K.render(sh, K.Config('', ['Default(expression = %s)' % e])))
        if sh.kind == 'enum':
            bad('bad-position', 'en|variant-marker-under-type-expression', K.render(sh, K.Config('', ['Default(expression = %s)' % e], {0: ['Default']})), K.render(sh, K.Config('', ['Default(expression = %s)' % e])))
        if sh.kind == 'union':
            bad('bad-position', 'un|field-marker-under-type-expression', K.render(sh, K.Config('', ['Default(expression = %s)' % e], {}, {(0, 0): ['Default']})), K.render(sh, K.Config('', ['Default(expression = %s)' % e])))
    # field attributes on a variant that is not the default one
    for m in ('Default = 1', 'Default(expression = 2)'):
        bad('bad-position', 'en|field-of-non-default-variant|%s' % m, K.render(EN, K.Config('', ['Default'], {0: ['Default']}, {(1, 1): [m]})), K.render(EN, K.Config('', ['Default'], {0: ['Default']}, {(0, 1): [m]})))
    # 7. unions ------------------------------------------------------------------------------------------------
    for sh, sk in ((UN, 'un3'), (U1, 'un1')):
        for t in ('Debug', 'PartialEq', 'Hash'):
            for m in ([t, '%s()' % t, '%s[]' % t, '%s{}' % t, '%s(,)' % t] + (['Debug(name = A)', 'Debug = A', 'Debug(name = false)', 'Debug(name = A,)'] if t == 'Debug' else [])):
                bad('union', '%s|no-unsafe|%s' % (sk, m), K.render(sh, K.Config('', [m])), K.render(sh, K.Config('', ['%s(unsafe)' % t])))
        for m in ('Debug(name = A, unsafe)', 'Debug(name = false, unsafe)'):
            bad('union', '%s|unsafe-not-first|%s' % (sk, m), K.render(sh, K.Config('', [m])), K.render(sh, K.Config('', ['Debug(unsafe, name = A)'])))
        for t in ('PartialOrd', 'Ord', 'Deref', 'DerefMut', 'Into(u8)'):
            host = {'Ord': ['PartialEq(unsafe)', 'Eq', t], 'PartialOrd': ['PartialEq(unsafe)', t], 'DerefMut': ['Deref', t]}.get(t, [t])
            bad('union', '%s|unsupported|%s' % (sk, t), K.render(sh, K.Config('', host)), K.render(sh, K.Config('', ['Copy', 'Clone'])))
    # 8. unit variants under Deref / DerefMut / Into ---------------------------------------------------------------
    for place in (0, 1, 2):
        for t in ('Deref', 'DerefMut', 'Into'):
            vs = [('t', 1), ('n', 1)]
            vs.insert(place, ('u', 0))
            sh = X('enum', vs)
            sh2 = X('enum', [x for x in vs if x[0] != 'u'])
            tl = {'Deref': ['Deref'], 'DerefMut': ['Deref', 'DerefMut'], 'Into': ['Into(u8)']}[t]
            bad('unit-variant', '%s|unit@%d' % (t, place), K.render(sh, K.Config('', tl)), K.render(sh2, K.Config('', tl)))
    bad('unit-variant', 'Deref|only-unit', K.render(X('enum', [('u', 0)]), K.Config('', ['Deref'])))
    bad('unit-variant', 'Into|empty-enum', K.render(X('enum', []), K.Config('', ['Into(u8)'])))
    bad('unit-variant', 'Deref|empty-enum', K.render(X('enum', []), K.Config('', ['Deref'])))
    # Default's own field attribute on a field of a variant that is not the default variant (tuple and struct-like), and under a type-level expression
    for vs, dv in [((('t', 2), ('n', 2)), 0), ((('t', 2), ('n', 2)), 1), ((('u', 0), ('t', 1), ('t', 2)), 0), ((('n', 1), ('t', 3)), 0)]:
        sh = X('enum', list(vs))
        for vi, (st, n) in enumerate(vs):
            if vi == dv or n == 0:
                continue
            for fi in (0, n - 1):
                for form in ('Default = 1', 'Default(expression = 1)', 'Default'):
                    bad('bad-position', 'Default|non-default-variant|%s|v%d|%d.%d|%s' % (''.join(s_ for s_, _ in vs), dv, vi, fi, form),
                        K.render(sh, K.Config('', ['Default'], {dv: ['Default']}, {(vi, fi): [form]})), K.render(sh, K.Config('', ['Default'], {dv: ['Default']})))
    sh = X('enum', [('t', 2), ('n', 1)])
    for pos in ((0, 1), (1, 0)):
        bad('bad-position', 'Default|type-expression|%s' % (pos,), K.render(sh, K.Config('', ['Default(expression = Ty::V1 { f0: 1 })'], {}, {pos: ['Default = 1']})),
            K.render(sh, K.Config('', ['Default(expression = Ty::V1 { f0: 1 })'])))
    # union fields take no parameters of the byte-wise traits in any spelling (list, name-value shorthand)
    un2 = X('union', [('n', 2)])
    for t in ('Debug', 'PartialEq', 'Hash'):
        for form in ('%s = false' % t, '%s = true' % t, '%s(ignore)' % t, '%s(ignore = false)' % t, '%s(method(m))' % t, '%s = "x"' % t if t == 'Debug' else '%s(ignore(true))' % t):
            for fi in (0, 1):
                bad('union', 'field-param|%s|%d|%s' % (t, fi, form), K.render(un2, K.Config('', ['%s(unsafe)' % t], {}, {(0, fi): [form]})), K.render(un2, K.Config('', ['%s(unsafe)' % t])))
    # candidates that equal the target only up to the lifetime of a reference are candidates all the same (`&str`, `&'a str`, `&'static str`)
    for tgt in ("&'static str", '&str'):
        for fa, fb in (("&'static str", "&'a str"), ("&'a str", "&'static str"), ("&'a str", "&'b str")):
            bad('designation', "Into|lifetimes|%s|%s,%s" % (tgt, fa, fb), "#[derive(Educe)]\n#[educe(Into(%s))]\nstruct Ty<'a, 'b> { x: %s, n: u8, y: %s, z: &'b u8 }\n" % (tgt, fa, fb),
                "#[derive(Educe)]\n#[educe(Into(%s))]\nstruct Ty<'a, 'b> { x: %s, n: u8, y: &'a u8, z: &'b u8 }\n" % (tgt, fa))
            bad('designation', "Into|lifetimes-enum|%s|%s,%s" % (tgt, fa, fb), "#[derive(Educe)]\n#[educe(Into(%s))]\nenum Ty<'a, 'b> { A(%s, %s, &'b u8), B { k: &'static str } }\n" % (tgt, fa, fb),
                "#[derive(Educe)]\n#[educe(Into(%s))]\nenum Ty<'a, 'b> { A(%s, &'a u8, &'b u8), B { k: &'static str } }\n" % (tgt, fa))
    # 9. Debug asked to print a nameless empty shape ---------------------------------------------------------------
    for off in ('Debug(name = false)', 'Debug(name(false))', 'Debug(name = "")'):
        for sh, sk in ((X('struct', [('u', 0)]), 'unit'), (X('struct', [('t', 0)]), 'tuple0'), (X('struct', [('n', 0)]), 'named0')):
            bad('debug-nameless', 'struct|%s|%s' % (sk, off), K.render(sh, K.Config('', [off])), K.render(sh, K.Config('', ['Debug'])))
        for sh, sk in ((SN, 'sn'), (ST, 'st')):
            f = {p: ['Debug(ignore)'] for p in sh.positions()}
            f2 = {p: ['Debug(ignore)'] for p in sh.positions()[1:]}
            bad('debug-nameless', 'struct|%s-all-ignored|%s' % (sk, off), K.render(sh, K.Config('', [off], {}, f)), K.render(sh, K.Config('', [off], {}, f2)))
        for place in (0, 1):
            vs = [('t', 1)]
            vs.insert(place, ('u', 0))
            sh = X('enum', vs)
            bad('debug-nameless', 'enum|unit-variant@%d|%s' % (place, off), K.render(sh, K.Config('', ['Debug'], {place: [off]})), K.render(sh, K.Config('', ['Debug(name = true)'], {place: [off]})))
        sh = X('enum', [('t', 0), ('n', 0), ('t', 2)])
        for vi in (0, 1):
            bad('debug-nameless', 'enum|empty-variant%d|%s' % (vi, off), K.render(sh, K.Config('', ['Debug'], {vi: [off]})), K.render(sh, K.Config('', ['Debug'])))
        bad('debug-nameless', 'enum|all-ignored|%s' % off, K.render(sh, K.Config('', ['Debug'], {2: [off]}, {(2, 0): ['Debug(ignore)'], (2, 1): ['Debug = false']})),
            K.render(sh, K.Config('', ['Debug'], {2: [off]}, {(2, 0): ['Debug(ignore)']})))
        # the nameless empty variant after variants that do print fields (state kept from one variant must not excuse the next)
        for shk, sh, empties in (('t2,t0,n0', X('enum', [('t', 2), ('t', 0), ('n', 0)]), (1, 2)), ('n2,n0', X('enum', [('n', 2), ('n', 0)]), (1,)),
                                 ('n1,u,t0,t1', X('enum', [('n', 1), ('u', 0), ('t', 0), ('t', 1)]), (2,)), ('t1,n0,t1', X('enum', [('t', 1), ('n', 0), ('t', 1)]), (1,))):
            for vi in empties:
                bad('debug-nameless', 'enum|%s|empty-variant%d-after-fields|%s' % (shk, vi, off), K.render(sh, K.Config('', ['Debug'], {vi: [off]})), K.render(sh, K.Config('', ['Debug'])))
        for shk, sh, vi in (('t1,n2', X('enum', [('t', 1), ('n', 2)]), 1), ('n2,t2', X('enum', [('n', 2), ('t', 2)]), 1), ('n1,t1,t2', X('enum', [('n', 1), ('t', 1), ('t', 2)]), 2)):
            bad('debug-nameless', 'enum|%s|all-ignored-after-fields|%s' % (shk, off), K.render(sh, K.Config('', ['Debug'], {vi: [off]}, {(vi, 0): ['Debug(ignore)'], (vi, 1): ['Debug = false']})),
                K.render(sh, K.Config('', ['Debug'], {vi: [off]}, {(vi, 0): ['Debug(ignore)']})))
        # the same with the field style flipped (a tuple element printed with keys, a named element printed positionally): all fields ignored and no name is still nothing to print
        for shk, sh, vi, nf in (('t2', X('enum', [('t', 2)]), 0, 'true'), ('u,t2', X('enum', [('u', 0), ('t', 2)]), 1, 'true'), ('n2', X('enum', [('n', 2)]), 0, 'false'), ('t1,n2', X('enum', [('t', 1), ('n', 2)]), 1, 'false'),
                                ('n1,t2,u', X('enum', [('n', 1), ('t', 2), ('u', 0)]), 1, 'true')):
            flip = off[:-1] + ', named_field = %s)' % nf
            for ig in (('Debug(ignore)', 'Debug = false'), ('Debug = false', 'Debug(ignore = true)')):
                bad('debug-nameless', 'enum|%s|all-ignored-flipped|%s|%s' % (shk, off, ig[0]), K.render(sh, K.Config('', ['Debug'], {vi: [flip]}, {(vi, 0): [ig[0]], (vi, 1): [ig[1]]})),
                    K.render(sh, K.Config('', ['Debug'], {vi: [flip]}, {(vi, 0): [ig[0]]})))
        for sh, sk, nf in ((SN, 'sn', 'false'), (ST, 'st', 'true')):
            flip = off[:-1] + ', named_field = %s)' % nf
            f = {p: ['Debug(ignore)'] for p in sh.positions()}
            f2 = {p: ['Debug(ignore)'] for p in sh.positions()[1:]}
            bad('debug-nameless', 'struct|%s-all-ignored-flipped|%s' % (sk, off), K.render(sh, K.Config('', [flip], {}, f)), K.render(sh, K.Config('', [flip], {}, f2)))
        bad('debug-nameless', 'empty-enum|%s' % off, K.render(X('enum', []), K.Config('', [off])), K.render(X('enum', []), K.Config('', ['Debug(name = true)'])))
    bad('debug-nameless', 'empty-enum|default', K.render(X('enum', []), K.Config('', ['Debug'])), K.render(X('enum', []), K.Config('', ['Debug = E'])))
    return R


def check(v, tier):
    R = generate(tier)
    cases, twins, seen, seen_tw = [], [], set(), set()
    for cls, key, text, twin in R:
        k = 'C13|%s|%s' % (cls, key)
        if k in seen:
            continue
        seen.add(k)
        cases.append(Case(k, text, {'class': cls, 'input': text}, expect='reject', run=False, depth=1, tags={'cls': cls}))
        if twin and twin not in seen_tw:
            seen_tw.add(twin)
            twins.append(Case('C13-twin|%s|%s' % (cls, key), twin, {'class': cls, 'twin_of': k, 'input': twin}, expect='accept', run=False, depth=0, tags={'cls': cls}))
    res = rt_run(cases + twins, run=False, name='C13', extra_prelude='pub fn m() {}\n')
    v.add_states(cases + twins)
    stems = {}
    bad_twins = []
    for r in res:
        v.cov['evaluations'] += 1
        c = r.case
        cls = c.tags['cls']
        if c.expect == 'reject':
            v.cov['traces_validated_against_impl'] += 1
            ed = [d for d in r.errors() if d['kind'] == 'educe']
            if r.status == 'panic':
                v.violation(c, 'the macro panicked instead of reporting a diagnostic: %s' % r.errors()[0]['msg'][:200])
            elif ed:
                stems.setdefault(cls, set()).add(ed[0]['msg'].split('`')[0][:60])
            elif r.status == 'ok':
                v.violation(c, 'the request was silently accepted (class %s) although it must be refused with a diagnostic' % cls)
            else:
                v.violation(c, 'the request was not refused by educe; it only fails later in the compiler: %s' % '; '.join((d['code'] or '') + ' ' + d['msg'][:120] for d in r.errors()[:2]))
        else:
            # valid twin: must not be refused by educe (whether the generated code type-checks is not C13's business)
            if any(d['kind'] in ('educe', 'panic') for d in r.errors()):
                bad_twins.append((c.key, [d['msg'][:160] for d in r.errors() if d['kind'] in ('educe', 'panic')][:1]))
    v.cov['distinct_nontrivial'] = sum(len(s) for s in stems.values())
    v.notes['diagnostic_stems_per_class'] = {k: sorted(s)[:12] for k, s in stems.items()}
    v.notes['classes'] = sorted({c.tags['cls'] for c in cases})
    v.notes['twins_refused'] = bad_twins[:10]
    for c in cases[::max(1, len(cases) // 8)][:8]:
        v.sample({'key': c.key, 'input': c.body})
    # a refused twin alone means the request space is mis-modelled (a machinery problem); next to genuine violations it is reported with them
    guard(not bad_twins or v.violations, 'grammar guard: %d valid twins are refused, e.g. %s' % (len(bad_twins), bad_twins[:3]))
    guard(all(cls in stems for cls in v.notes['classes']), 'a class produced no educe diagnostic at all')
    return v.finish('one offending construct on top of an otherwise valid request, for every class of the statement: trait twice (same list / separate attributes / all pairs of '
                    'spellings; on fields incl. Eq+PartialEq and Ord+PartialOrd carriers), parameter twice (alias pairs, both orders, type / variant / field level), rank twice (explicit-explicit in '
                    'three spellings, explicit equal to another field\'s default rank), Into target twice (type level incl. re-spelled types, two fields, same field), missing / double designation '
                    '(default variant over {unit,tuple,named}^V, union field in four marker forms, Deref / DerefMut / Into field incl. 0 / 2 / 3 same-typed candidates), attribute of a trait not educed '
                    '(every trait x host set x field / variant), unknown trait, unknown or misplaced parameter at type / variant / field level, name on positionally shown fields (6 spellings x 4 '
                    'shapes), union fields, unions without unsafe / unsafe not first / unsupported traits, unit variants under Deref / DerefMut / Into, nameless empty shapes under Debug; positions '
                    'first / middle / last, and every pair of positions on five-field elements for rank and marker duplicates; oracle: rustc reports an educe diagnostic located in the case (accepted, panicked, or failing only later in the compiler = violation); every valid twin '
                    '(construct removed) must not be refused; non-trivial = distinct diagnostic stems observed',
                    {'bounds': {'tier': tier, 'offending_constructs_per_state': 1}})
