"""C17 — the macro is total: it never panics, aborts or hangs (engine RT for verdicts, XP as a wide pre-pass)."""
import itertools
import re

from .. import xp
from ..core import shash, Case, guard, rt_run, log

TOK = re.compile(r'''\s*(?:
    (?P<str>b?"(?:[^"\\]|\\.)*") | (?P<chr>b?'(?:[^'\\]|\\.)') | (?P<life>'[A-Za-z_][A-Za-z0-9_]*) |
    (?P<num>[0-9][0-9A-Za-z_.]*) | (?P<id>r\#[A-Za-z_][A-Za-z0-9_]*|[A-Za-z_][A-Za-z0-9_]*) | (?P<dc>::) | (?P<open>[(\[{]) | (?P<close>[)\]}]) |
    (?P<p>[-+*/%^!&|=<>@.,;:#$?~]) )''', re.X)
CLOSE = {'(': ')', '[': ']', '{': '}'}


def tokenize(text):
    """token trees: a leaf is a string, a group is [open, [children], close]"""
    stack = [[]]
    opens = []
    pos = 0
    text = text.strip()
    while pos < len(text):
        m = TOK.match(text, pos)
        if not m:
            raise ValueError('cannot tokenize %r at %d' % (text, pos))
        pos = m.end()
        if m.group('open'):
            opens.append(m.group('open'))
            stack.append([])
        elif m.group('close'):
            kids = stack.pop()
            o = opens.pop()
            stack[-1].append([o, kids, CLOSE[o]])
        else:
            stack[-1].append(m.group(0).strip())
    assert len(stack) == 1
    return stack[0]


def render(tt):
    out = []
    for t in tt:
        if isinstance(t, list):
            out.append(t[0] + render(t[1]) + t[2])
        else:
            out.append(t)
    s = ' '.join(out)
    return s.replace(' ,', ',').replace(': :', '::')


ALPHABET = ['x', 'unsafe', 'true', 'false', '1', '-1', '1.5', '""', '"x"', "'c'", '=', ',', '::', '*', '-', "'a", '<', '>',
            ['(', [], ')'], ['[', [], ']'], ['{', [], '}'], 'name', 'Debug',
            '9223372036854775807', '9223372036854775808', '"-9223372036854775807"', '"-9223372036854775808"',
            '"a b"', '"1x"', '"a-b"', '"r#x"', '"T: "',
            'type', 'fn', 'Self', 'self', 'crate', 'super', 'enum', 'r#type', '_', 'dyn', '"type"', '"Self"', '"_"']


def mutations(tt, alphabet):
    """all single token-tree mutations of a token-tree list (at every nesting level): yields (description, new list)"""
    n = len(tt)
    for i in range(n):
        yield 'del@%d' % i, tt[:i] + tt[i + 1:]
        yield 'dup@%d' % i, tt[:i + 1] + [tt[i]] + tt[i + 1:]
        if i + 1 < n:
            yield 'swap@%d' % i, tt[:i] + [tt[i + 1], tt[i]] + tt[i + 2:]
        for k, a in enumerate(alphabet):
            if a != tt[i]:
                yield 'rep@%d:%d' % (i, k), tt[:i] + [a] + tt[i + 1:]
        if isinstance(tt[i], list):
            o, kids, c = tt[i]
            for o2 in '([{':
                if o2 != o:
                    yield 'wrap@%d:%s' % (i, o2), tt[:i] + [[o2, kids, CLOSE[o2]]] + tt[i + 1:]
            yield 'unwrap@%d' % i, tt[:i] + kids + tt[i + 1:]
            for d, sub in mutations(kids, alphabet):
                yield '%d>%s' % (i, d), tt[:i] + [[o, sub, c]] + tt[i + 1:]
    for i in range(n + 1):
        for k, a in enumerate(alphabet):
            yield 'ins@%d:%d' % (i, k), tt[:i] + [a] + tt[i:]


# seeds: (id, template with {A} where the educe(...) argument list goes, valid argument text)
def seeds():
    S = []

    def add(sid, tpl, args):
        S.append((sid, tpl, args))
    st = '#[derive(Educe)]\n#[educe({A})]\nstruct Ty {{ a: u8, b: u16 }}\n'
    st_g = '#[derive(Educe)]\n#[educe({A})]\nstruct Ty<T> {{ a: T, b: u16 }}\n'
    tu = '#[derive(Educe)]\n#[educe({A})]\nstruct Ty(u8, u16);\n'
    en = '#[derive(Educe)]\n#[educe({A})]\nenum Ty {{ A(u8, u16), B {{ x: u8 }} }}\n'
    enu = '#[derive(Educe)]\n#[educe({A})]\nenum Ty {{ U, A(u8) }}\n'
    un = '#[derive(Educe)]\n#[educe({A})]\nunion Ty {{ a: u8, b: u16 }}\n'
    for sid, tpl in (('st', st), ('tu', tu), ('en', en), ('un', un)):
        union = sid == 'un'
        add(sid + '/Debug', tpl, 'Debug(unsafe)' if union else 'Debug')
        add(sid + '/Debug-name', tpl, 'Debug(unsafe, name = Zz)' if union else 'Debug(name = Zz, bound = false)')
        add(sid + '/PartialEq-Hash', tpl, 'PartialEq(unsafe), Eq, Hash(unsafe)' if union else 'PartialEq, Eq, Hash(bound(u8: Copy))')
        add(sid + '/Clone', tpl, 'Copy, Clone')
        if not union:
            add(sid + '/Ord', tpl, 'PartialEq, Eq, PartialOrd, Ord(bound = "u8: Ord")')
            add(sid + '/Debug-eq', tpl, 'Debug = "Zz"')
    add('st/Debug-nf', st, 'Debug(named_field = false, name(Zz))')
    add('stg/bounds', st_g, 'Debug(bound(T: ::core::fmt::Debug)), Clone(bound(*)), PartialEq(bound = false)')
    add('st/Default', st, 'Default(new, expression = Ty { a: 1, b: 2 })')
    add('enu/Default', enu, 'Default(new = true)')
    add('st/Into', '#[derive(Educe)]\n#[educe({A})]\nstruct Ty {{ #[educe(Into(u8))] a: u8, #[educe(Into(u16, method(m)))] b: u8 }}\n', 'Into(u8), Into(u16, bound = false)')
    add('st/Into-ref', "#[derive(Educe)]\n#[educe({A})]\nstruct Ty {{ a: &'static str }}\n", "Into(&'static str), Into(Vec<u8>, bound(Vec<u8>: Clone))")
    add('en/name-true', en, 'Debug(name = true)')
    add('en/name-list', en, 'Debug(name(Zz))')
    add('en/rename-list', en, 'Debug(rename(Zz), bound(*))')
    add('v/name-list-on', '#[derive(Educe)]\n#[educe(Debug(name = true))]\nenum Ty {{ #[educe({A})] A(u8, u16), B {{ x: u8 }} }}\n', 'Debug(name(Vv))')
    add('v/name-eq-on', '#[derive(Educe)]\n#[educe(Debug(name(Zz)))]\nenum Ty {{ A(u8, u16), #[educe({A})] B {{ x: u8 }} }}\n', 'Debug(rename = Vv)')
    # field / variant level (the mutated attribute is the inner one)
    fld = '#[derive(Educe)]\n#[educe({T})]\nstruct Ty {{ #[educe({A})] a: u8, b: u16 }}\n'
    tfld = '#[derive(Educe)]\n#[educe({T})]\nstruct Ty(u16, #[educe({A})] u8);\n'
    vfld = '#[derive(Educe)]\n#[educe({T})]\nenum Ty {{ A(#[educe({A})] u8, u16), B {{ x: u8 }} }}\n'
    nfld = '#[derive(Educe)]\n#[educe({T})]\nenum Ty {{ A(u8), #[educe(Default)] B {{ x: u8, #[educe({A})] y: u16 }} }}\n'
    for tag, tpl in (('f', fld), ('tf', tfld), ('vf', vfld), ('nf', nfld)):
        named = tag in ('f', 'nf')
        for tt, args in (('Debug', 'Debug(name = k, method(fmt_m))' if named else 'Debug(method(fmt_m), ignore = false)'), ('Debug', 'Debug = false'), ('Debug', 'Debug(ignore)'),
                         ('PartialEq', 'PartialEq(method = "eq_m")'), ('PartialEq, Eq', 'Eq(ignore)'), ('Hash', 'Hash(ignore = true)'), ('Hash', 'Hash(method(a::b))'),
                         ('PartialEq, PartialOrd', 'PartialOrd(rank = -1, method(cmp_m))'), ('PartialEq, Eq, PartialOrd, Ord', 'Ord(rank("3"))'), ('PartialEq, Eq, PartialOrd, Ord', 'PartialOrd(ignore)'),
                         ('Clone', 'Clone(method(c))'), ('Default', 'Default = 7'), ('Default', 'Default(expression = 1 + 2)'), ('Default', 'Default(expr("s"))'),
                         ('Debug, Hash', 'Debug(ignore), Hash(ignore)')):
            if tag == 'nf' and 'Default' not in tt:
                tt2 = tt + ', Default'
            else:
                tt2 = tt
            add('%s/%s' % (tag, args), tpl.replace('{T}', tt2), args)
    for tag, tpl in (('f', fld), ('nf', nfld)):
        add('%s/name-list' % tag, tpl.replace('{T}', 'Debug' if tag == 'f' else 'Debug, Default'), 'Debug(name(k), method("fmt_m"))')
        add('%s/rename-str' % tag, tpl.replace('{T}', 'Debug' if tag == 'f' else 'Debug, Default'), 'Debug(rename("k"))')
    add('v/Debug-list', var.replace('{T}', 'Debug') if False else '#[derive(Educe)]\n#[educe(Debug)]\nenum Ty {{ #[educe({A})] A(u8, u16), B {{ x: u8 }} }}\n', 'Debug(name("Vv"), named_field(true))')
    add('f/Deref', '#[derive(Educe)]\n#[educe(Deref, DerefMut)]\nstruct Ty {{ #[educe({A})] a: u8, b: u16 }}\n', 'Deref, DerefMut')
    add('vf/Into', '#[derive(Educe)]\n#[educe(Into(u8), Into(u16))]\nenum Ty {{ A(#[educe({A})] u8, u16), B {{ x: u8 }} }}\n', 'Into(u8), Into(u16, method(m))')
    var = '#[derive(Educe)]\n#[educe({T})]\nenum Ty {{ #[educe({A})] A(u8, u16), B {{ x: u8 }} }}\n'
    add('v/Debug', var.replace('{T}', 'Debug'), 'Debug(name = Vv, named_field = true)')
    add('v/Debug-eq', var.replace('{T}', 'Debug(name = true)'), 'Debug = Vv')
    add('v/Default', var.replace('{T}', 'Default'), 'Default')
    uf = '#[derive(Educe)]\n#[educe(Default)]\nunion Ty {{ a: u8, #[educe({A})] b: u16 }}\n'
    add('uf/Default', uf, 'Default = 300')
    add('uf/Default-flag', uf, 'Default')
    add('un/all', un, 'Debug(unsafe, name = false), PartialEq(unsafe), Hash(unsafe), Default')
    return S


def cases_for(tier):
    out = []
    seen = set()
    for sid, tpl, args in seeds():
        tt = tokenize(args)
        alph = ALPHABET if tier != 'quick' else ALPHABET
        muts = [('seed', tt)] + list(mutations(tt, alph))
        for d, m in muts:
            a = render(m)
            text = tpl.replace('{{', '\x00').replace('}}', '\x01').replace('{A}', a).replace('\x00', '{').replace('\x01', '}')
            if text in seen:
                continue
            seen.add(text)
            out.append(Case('C17|%s|%s' % (sid, d), text, {'seed': sid, 'mutation': d, 'args': a}, expect='any', run=False, depth=0 if d == 'seed' else 1))
    # attribute forms and nesting depth
    forms = ['#[educe]', '#[educe()]', '#[educe[]]', '#[educe{}]', '#[educe = "Debug"]', '#[educe = 1]', '#[educe(,)]', '#[educe[Debug]]', '#[educe{Debug}]', '#[educe(Debug,)]',
             '#[educe(Debug,,)]', '#[educe(())]', '#[educe(Debug())]', '#[educe(Debug[])]', '#[educe(Debug{})]', '#[educe(Hash())]', '#[educe(Hash[])]', '#[educe(PartialEq{})]',
             '#[educe(Into())]', '#[educe(Into(,))]', '#[educe(Into(u8,))]', '#[educe(Into(u8,,))]', '#[educe(Default())]', '#[educe(Default(expression))]', '#[educe(Default(expression()))]',
             '#[educe(Debug(name()))]', '#[educe(Debug(name = ))]'.replace(' = )', '(=))'), '#[educe(PartialOrd(rank()))]', '#[educe(Debug(bound()))]', '#[educe(Debug(bound(,)))]',
             '#[educe(Debug(bound(*, *)))]', '#[educe(Debug(bound = "*"))]', '#[educe(Debug(bound = "T:"))]', '#[educe(Debug(method()))]', '#[educe(Debug(method = ""))]',
             '#[educe(Debug(name = "a b"))]', '#[educe(Debug(name = "1"))]', '#[educe(Debug = "")]', '#[educe(Debug = 1)]', "#[educe(Debug = 'c')]", '#[educe(PartialOrd(rank = "x"))]',
             '#[educe(PartialOrd(rank = 99999999999999999999999))]', '#[educe(PartialOrd(rank = -99999999999999999999999))]', '#[educe(PartialOrd(rank = 1.5))]', '#[educe(Debug(unsafe))]',
             '#[educe(unsafe)]', '#[educe(Debug::X)]', '#[educe(::Debug)]', '#[educe(::Debug, ::Debug)]', '#[educe(::Deref)]', '#[educe(::Hash(ignore))]', '#[educe(::Clone(bogus))]', '#[educe(::Default, Default)]',
             '#[educe(::core::fmt::Debug)]', '#[educe(self::Debug)]', '#[educe(crate::Debug, Debug)]', '#[educe(::Into(u8), ::Into(u8))]', '#[educe(::PartialOrd(rank = 1))]', '#[educe(r#Debug)]', '#[educe(Debug(r#name = X))]', '#[educe(Debug(name = r#type))]']
    hosts = [('type', '#[derive(Educe)]\n{F}\nstruct Ty {{ a: u8 }}\n'), ('type-u', '#[derive(Educe)]\n{F}\nunion Ty {{ a: u8 }}\n'), ('type-e', '#[derive(Educe)]\n{F}\nenum Ty {{ A(u8) }}\n'),
             ('field', '#[derive(Educe)]\n#[educe(Debug, Hash, PartialEq, PartialOrd, Default, Into(u8))]\nstruct Ty {{ {F} a: u8 }}\n'),
             ('variant', '#[derive(Educe)]\n#[educe(Debug, Hash, PartialEq, PartialOrd, Default)]\nenum Ty {{ {F} A(u8) }}\n'),
             ('ufield', '#[derive(Educe)]\n#[educe(Debug(unsafe), Hash(unsafe), PartialEq(unsafe), Default)]\nunion Ty {{ {F} a: u8 }}\n')]
    for f in forms:
        for hk, h in hosts:
            text = h.replace('{{', '\x00').replace('}}', '\x01').replace('{F}', f).replace('\x00', '{').replace('\x01', '}')
            if text not in seen:
                seen.add(text)
                out.append(Case('C17|form|%s|%s' % (hk, f), text, {'host': hk, 'form': f}, expect='any', run=False, depth=1))
    # generic parameters named like the fresh names the templates pick (a retry loop that does not advance would hang)
    for base in ('__H', 'H', '__T', 'Educe__DebugField', 'Educe__RawString'):
        names = [base, base + '_', base + '__', base + '___']
        for k in (1, 2, 3, 4):
            for role in ('type', 'const', 'mixed'):
                ps = []
                for i, nme in enumerate(names[:k]):
                    ps.append(('const %s: usize' % nme) if (role == 'const' or (role == 'mixed' and i % 2)) else nme)
                uses = ', '.join(('[u8; %s]' % nme) if p.startswith('const') else nme for p, nme in zip(ps, names[:k]))
                for kind, body in (('struct', 'struct Ty<%s>(%s);' % (', '.join(ps), uses)), ('enum', 'enum Ty<%s> { A(%s), B }' % (', '.join(ps), uses))):
                    text = '#[derive(Educe)]\n#[educe(Hash, Debug, Clone, PartialEq)]\n%s\n' % body
                    if text not in seen:
                        seen.add(text)
                        out.append(Case('C17|fresh|%s|%d|%s|%s' % (base, k, role, kind), text, {'generic_parameters': names[:k], 'role': role}, expect='any', run=False, depth=1))
    out += item_zoo()
    depths = [1, 2, 3, 8, 32, 64, 128, 256] + ([512, 1024, 2048] if tier != 'quick' else [])
    for d in depths:
        for nk, mk in (('paren', lambda d: 'Debug' + '(' * d + ')' * d), ('p-chain', lambda d: 'Debug(' + 'name(' * d + 'x' + ')' * d + ')'), ('bound', lambda d: 'Debug(bound' + '(' * d + 'u8: Copy' + ')' * d + ')'),
                       ('expr', lambda d: 'Default(expression = ' + '(' * d + '1' + ')' * d + ')'), ('expr-neg', lambda d: 'Default(expression = ' + '-' * d + '1)'),
                       ('type', lambda d: 'Into(' + 'Vec<' * d + 'u8' + '>' * d + ')'), ('ref', lambda d: 'Into(' + '&' * d + 'u8)'), ('path', lambda d: 'Debug(method(' + 'a::' * d + 'f))'),
                       ('bracket', lambda d: 'Debug' + '[' * d + ']' * d), ('many', lambda d: ', '.join(['Debug'] + ['Clone'] * 0 + ['Into(u%d)' % (8 << (k % 4)) for k in range(min(d, 4))]))):
            a = mk(d)
            text = '#[derive(Educe)]\n#[educe(%s)]\nstruct Ty { a: u8 }\n' % a
            if text not in seen:
                seen.add(text)
                out.append(Case('C17|depth|%s|%d' % (nk, d), text, {'nesting': nk, 'depth': d}, expect='any', run=False, depth=1))
        text = '#[derive(Educe)]\n#[educe(Debug)]\nstruct Ty { %s }\n' % ' '.join('#[educe(Debug(ignore))] f%d: u8,' % k for k in range(d))
        out.append(Case('C17|width|fields|%d' % d, text, {'fields': d}, expect='any', run=False, depth=1))
        text = '#[derive(Educe)]\n#[educe(PartialEq, PartialOrd)]\nenum Ty { %s }\n' % ' '.join('V%d = %d,' % (k, d - k) for k in range(d))
        out.append(Case('C17|width|variants|%d' % d, text, {'variants': d}, expect='any', run=False, depth=1))
    return out


ZOO_TYPES = ["&'a (dyn ::core::fmt::Display + Sync)", "&'a dyn ::core::fmt::Display", "&'a (u8)", "&'a ((u8))", '(u8)', '((u8,),)', "Option<&'a (dyn ::core::fmt::Debug + 'a)>",
             "Box<dyn Fn(u8) -> u8 + Send + 'a>", '[u8; 2]', '[u8; { 1 + 1 }]', "&'a [u8]", "&'a mut [u8]", 'fn(u8) -> u8', "for<'x> fn(&'x u8) -> &'x u8", 'unsafe extern "C" fn(u8)',
             '*const u8', '*mut Ty', '!', '()', '(u8, u16)', '<u8 as Tr>::Out', 'Vec<<u8 as Tr>::Out>', 'impl Tr', '_', 'tym!()', "&'a &'a u8", '::std::vec::Vec<u8>', 'crate::sup::V',
             "::core::marker::PhantomData<fn(&'a u8) -> &'a T>", 'dyn Tr', '[u8]', 'str', 'Self', "&'a Self", 'Box<Self>', '[Self; 0]', "&'a (T)", '(T)', "&'a (dyn Tr<Out = u8> + Send)",
             'u8', 'r#type', 'Vec<u8,>', "&'static (dyn ::core::fmt::Display + Sync)"]
ZOO_SETS = ['Debug', 'Clone', 'Copy, Clone', 'PartialEq', 'PartialEq, Eq', 'PartialEq, PartialOrd', 'PartialEq, Eq, PartialOrd, Ord', 'Hash', 'Default', 'Default(new)']
ZOO_PRE = "macro_rules! tym { () => { u8 }; }\npub trait Tr { type Out; }\nimpl Tr for u8 { type Out = u16; }\n#[allow(non_camel_case_types)] pub struct r#type;\n"
DISCS = ['0', '-1', '1 + 1', '(5)', '-(1)', '1 << 3', "b'a' as isize", '0x7f', '1_000', '1u8', '0b11', '0o17', 'K', 'i128::MAX', '{ 3 }', 'u8::MAX as isize', '-0', '- 5', '!0', "'a' as isize",
         'true as isize', '1isize', '9999999999999999999999999999999999999999999999', '-9999999999999999999999999999999999999999999999', '1.0', '"s"', '1e3', '0xFFFF_FFFF_FFFF_FFFF_FFFF_FFFF_FFFF_FFFF']
BOUNDS = {'u8': (0, 255), 'i8': (-128, 127), 'u16': (0, 65535), 'i16': (-32768, 32767), 'u32': (0, 2**32 - 1), 'i32': (-2**31, 2**31 - 1), 'u64': (0, 2**64 - 1), 'i64': (-2**63, 2**63 - 1),
          'usize': (0, 2**64 - 1), 'isize': (-2**63, 2**63 - 1), 'u128': (0, 2**128 - 1), 'i128': (-2**127, 2**127 - 1)}


def item_zoo():
    """the item itself as the adversarial part: exotic field types under every trait, and discriminants at and beyond the boundaries of every #[repr]"""
    out = []

    def add(key, text, spec):
        out.append(Case(key, ZOO_PRE + text, spec, expect='any', run=False, depth=1))
    for zi, z in enumerate(ZOO_TYPES):
        zk = 'z%02d' % zi
        for si, ts in enumerate(ZOO_SETS):
            add('C17|zoo|%s|st|%s' % (zk, ts), "#[derive(Educe)]\n#[educe(%s)]\nstruct Ty<'a, T> { a: u8, z: %s, t: &'a T }\n" % (ts, z), {'field_type': z, 'traits': ts})
            add('C17|zoo|%s|en|%s' % (zk, ts), "#[derive(Educe)]\n#[educe(%s)]\nenum Ty<'a, T> { %sA(u8, %s), B { z: %s, t: &'a T }, C }\n" % (
                ts, '#[educe(Default)] ' if 'Default' in ts else '', z, z), {'field_type': z, 'traits': ts})
        # Into: the conversion source is looked up by type among all fields; the exotic type as a bystander, as the source and as the target
        add('C17|zoo|%s|st|Into-bystander' % zk, "#[derive(Educe)]\n#[educe(Into(u16), Into(u8))]\nstruct Ty<'a, T> { a: u16, b: u8, z: %s, t: &'a T }\n" % z, {'field_type': z})
        add('C17|zoo|%s|en|Into-bystander' % zk, "#[derive(Educe)]\n#[educe(Into(u8))]\nenum Ty<'a, T> { A(u8, %s, &'a T), B { z: %s, x: u8 }, C(u8) }\n" % (z, z), {'field_type': z})
        add('C17|zoo|%s|st|Into-target' % zk, "#[derive(Educe)]\n#[educe(Into(%s))]\nstruct Ty<'a, T> { z: %s, t: &'a T }\n" % (z, z), {'field_type': z})
        add('C17|zoo|%s|st|Into-target1' % zk, "#[derive(Educe)]\n#[educe(Into(%s))]\nstruct Ty<'a>(%s, ::core::marker::PhantomData<&'a u8>);\n" % (z, z), {'field_type': z})
        add('C17|zoo|%s|en|Into-target' % zk, "#[derive(Educe)]\n#[educe(Into(%s))]\nenum Ty<'a> { A(%s, &'a u8), B { z: %s } }\n" % (z, z, z), {'field_type': z})
        add('C17|zoo|%s|st|Into-marked' % zk, "#[derive(Educe)]\n#[educe(Into(u8))]\nstruct Ty<'a, T> { #[educe(Into(u8))] z: %s, t: &'a T }\n" % z, {'field_type': z})
        add('C17|zoo|%s|st|Deref' % zk, "#[derive(Educe)]\n#[educe(Deref, DerefMut)]\nstruct Ty<'a>(%s, #[educe(Debug)] ::core::marker::PhantomData<&'a u8>);\n".replace('#[educe(Debug)] ', '') % z, {'field_type': z})
        add('C17|zoo|%s|st|Deref-marked' % zk, "#[derive(Educe)]\n#[educe(Deref, DerefMut)]\nstruct Ty<'a, T> { #[educe(Deref, DerefMut)] z: %s, t: &'a T }\n" % z, {'field_type': z})
        add('C17|zoo|%s|en|Deref' % zk, "#[derive(Educe)]\n#[educe(Deref)]\nenum Ty<'a> { A(%s), B { #[educe(Deref)] z: %s, t: &'a u8 } }\n" % (z, z), {'field_type': z})
        add('C17|zoo|%s|un|all' % zk, "#[derive(Educe)]\n#[educe(Debug(unsafe), PartialEq(unsafe), Hash(unsafe), Copy, Clone, Default)]\nunion Ty<'a, T> { #[educe(Default)] z: %s, t: &'a T }\n" % z, {'field_type': z})
    # degenerate shapes under every trait: zero-field tuple / struct variants and structs, unit and empty forms, with and without markers
    shapes = {
        'enum-t0': 'enum Ty { {M}Ping() }', 'enum-n0': 'enum Ty { {M}Pong {} }', 'enum-t0-n0': 'enum Ty { {M}Ping(), Pong {} }', 'enum-u': 'enum Ty { {M}A }', 'enum-u-t0-n1': 'enum Ty { {M}A, B(), C { {F}x: u8 } }',
        'enum-t1-t0': 'enum Ty { {M}A({F}u8), B() }', 'enum-n1-n0': 'enum Ty { {M}A { {F}x: u8 }, B {} }', 'enum-t0-t1': 'enum Ty { A(), {M}B({F}u8) }', 'enum-empty': 'enum Ty {}',
        'enum-t2-u': 'enum Ty { {M}A({F}u8, u8), B }', 'struct-t0': 'struct Ty();', 'struct-n0': 'struct Ty {}', 'struct-u': 'struct Ty;', 'struct-t1': 'struct Ty({F}u8);', 'struct-n1': 'struct Ty { {F}x: u8 }',
        'union-1': 'union Ty { {F}x: u8 }', 'union-2': 'union Ty { {F}x: u8, y: u16 }', 'enum-g-t0': "enum Ty<'a, T, const N: usize> { {M}A(), B({F}&'a [T; N]) }",
    }
    tsets = {'Debug': ('Debug', '', ''), 'Debug-off': ('Debug(name = false)', '', ''), 'Debug-u': ('Debug(unsafe)', '', ''), 'Clone': ('Clone', '', ''), 'Copy': ('Copy, Clone', '', ''),
             'PartialEq': ('PartialEq, Eq', '', ''), 'PartialEq-u': ('PartialEq(unsafe), Eq, Hash(unsafe)', '', ''), 'Ord': ('PartialEq, Eq, PartialOrd, Ord', '', ''),
             'PartialOrd': ('PartialEq, PartialOrd', '', ''), 'Hash': ('Hash', '', ''), 'Default': ('Default', '', ''), 'Default-m': ('Default(new)', '#[educe(Default)] ', ''),
             'Default-f': ('Default', '#[educe(Default)] ', '#[educe(Default = 1)] '), 'Deref': ('Deref', '', ''), 'Deref-f': ('Deref, DerefMut', '', '#[educe(Deref, DerefMut)] '),
             'DerefMut': ('DerefMut', '', '#[educe(DerefMut)] '), 'Into': ('Into(u8)', '', ''), 'Into-f': ('Into(u8), Into(u16)', '', '#[educe(Into(u8), Into(u16))] '),
             'all': ('Debug, Clone, PartialEq, Eq, PartialOrd, Ord, Hash', '', '')}
    for sk, sh in shapes.items():
        for tk, (tl, vm, fm) in tsets.items():
            add('C17|shape|%s|%s' % (sk, tk), '#[derive(Educe)]\n#[educe(%s)]\n%s\n' % (tl, sh.replace('{M}', vm).replace('{F}', fm)), {'shape': sk, 'traits': tk})
    # generics and where-clauses in unusual layouts x trait sets that carry field-level parameters (code paths that rebuild where-clauses / bind fields by name)
    gens = {
        'w-trailing': ("<T>", "where T: Copy,"), 'w-empty': ("<T>", "where"), 'w-two-trailing': ("<'a, T, U>", "where T: 'a + Copy, U: Copy,"), 'w-hrtb': ("<T>", "where for<'x> &'x T: Copy, T: Copy"),
        'w-none-defaults': ("<T: Copy = u8, const N: usize = 1>", ""), 'w-self': ("<T>", "where Self: Sized, T: Copy"), 'inline-trailing': ("<'a, T: 'a + Copy,>", ""),
        'w-assoc': ("<I: Iterator>", "where I::Item: Copy, I: Copy,"), 'none': ("", ""),
    }
    fsets = {
        'CopyCloneM': ('Copy, Clone', '#[educe(Clone(method(m)))] '), 'CloneM': ('Clone', '#[educe(Clone(method(m)))] '), 'DebugM': ('Debug', '#[educe(Debug(method(m), name = k))] '),
        'EqM': ('PartialEq, Eq', '#[educe(PartialEq(method(m)))] '), 'OrdM': ('PartialEq, Eq, PartialOrd, Ord', '#[educe(Ord(method(m), rank = 1))] '), 'HashM': ('Hash', '#[educe(Hash(method(m)))] '),
        'IntoM': ('Into(u8), Into(u16)', '#[educe(Into(u8, method(m)), Into(u16))] '), 'DerefDM': ('Deref, DerefMut', '#[educe(Deref, DerefMut)] '), 'DefaultE': ('Default(new)', '#[educe(Default = 1)] '),
        'plain-all': ('Debug, Clone, PartialEq, Eq, PartialOrd, Ord, Hash', ''),
    }
    for gk, (g, w) in gens.items():
        used = [x.strip().split(':')[0].split('=')[0].strip() for x in g.strip('<>').rstrip(',').split(',') if x.strip() and not x.strip().startswith(('const', "'"))]
        ph = ', '.join('::core::marker::PhantomData<%s>' % u for u in used) or '()'
        lt = "&'a u8" if "'a" in g else 'u8'
        for fk, (tl, fm) in fsets.items():
            vd = '#[educe(Default)] ' if 'Default' in tl else ''
            for kind, decl in (('sn', 'struct Ty%s %s { %sx: u8, y: %s, p: (%s) }' % (g, w, fm, lt, ph)), ('st', 'struct Ty%s(%su8, %s, (%s)) %s;' % (g, fm, lt, ph, w)),
                               ('en', 'enum Ty%s %s { %sA(%su8, %s, (%s)), B { %sx: u8, p: (%s) } }' % (g, w, vd, fm, lt, ph, fm, ph))):
                add('C17|generics|%s|%s|%s' % (gk, fk, kind), '#[derive(Educe)]\n#[educe(%s)]\n%s\n' % (tl, decl), {'generics': g, 'where': w, 'traits': fk})
    # every Into diagnostic about targets of every syntactic kind (the message prints the target type): no field of the type, several candidates and no marker,
    # the marker twice, the target twice, a variant without a candidate, a marker for a target that was not requested
    itargets = ['&&str', "&'static &'static str", "&'a &'a mut [u8]", "(&'a u8, &'a u16)", "fn(&'a u8) -> &'a u8", "Option<&'a &'a u8>", "&'a dyn ::core::fmt::Debug", '*const &u8', "[&'a str; 2]",
                "&'a (&'a u8, &'a [&'a str])", '<u8 as ZooTr>::Out', 'zoo_ty!()', 'u8', '()', '!', "::std::borrow::Cow<'a, &'a str>", "&'a &'a &'a &'a u8"]
    for ti, t in enumerate(itargets):
        tk = 't%02d' % ti
        situations = {
            'no-field': "struct Ty<'a> { a: u16, b: &'a u32 }",
            'two-candidates': "struct Ty<'a> { a: %s, b: %s, c: &'a u32 }" % (t, t),
            'two-candidates-tuple': "struct Ty<'a>(%s, %s, &'a u32);" % (t, t),
            'marker-twice': "struct Ty<'a> { #[educe(Into(%s))] a: %s, #[educe(Into(%s))] b: %s, c: &'a u32 }" % (t, t, t, t),
            'variant-without': "enum Ty<'a> { A(%s, &'a u32), B { x: u16, y: &'a u32 } }" % t,
            'variant-two': "enum Ty<'a> { A(%s, &'a u32), B { x: %s, y: %s, z: &'a u32 } }" % (t, t, t),
            'unrequested-marker': "struct Ty<'a> { #[educe(Into(%s))] a: %s, b: u64, c: &'a u32 }" % (t, t),
            'union': "union Ty<'a> { a: %s, c: &'a u32 }" % t,
        }
        for sk, decl in situations.items():
            tl = 'Into(u64)' if sk == 'unrequested-marker' else 'Into(%s)' % t
            add('C17|into-diag|%s|%s' % (tk, sk), '#[derive(Educe)]\n#[educe(%s)]\n%s\n' % (tl, decl), {'target': t, 'situation': sk})
        add('C17|into-diag|%s|target-twice' % tk, "#[derive(Educe)]\n#[educe(Into(%s), Into(%s))]\nstruct Ty<'a> { a: %s, c: &'a u32 }\n" % (t, t, t), {'target': t, 'situation': 'target-twice'})
        add('C17|into-diag|%s|target-twice-lines' % tk, "#[derive(Educe)]\n#[educe(Into(%s))]\n#[educe(Into(%s))]\nstruct Ty<'a> { a: %s, c: &'a u32 }\n" % (t, t, t), {'target': t, 'situation': 'target-twice-lines'})
    # literal default expressions in every lexical form (radix prefixes, separators, exponents, suffixes, negation, non-numeric literals) on every primitive field type, in the three spellings:
    # whatever the literal adjustment does with them, the macro has to terminate with an expansion or a diagnostic
    lits = ['0x10', '0o17', '0b101', '0xFF_u8', '0x1_0', '1_000', '-0x10', '-0b1', '1e3', '1E-2', '1_0.5', '2.', '1f32', '-1e3f64', '0xfu16', '0u128', '340282366920938463463374607431768211455',
            '-170141183460469231731687303715884105728', "'c'", "b'c'", '"s"', 'b"s"', 'true', '1.0e400', '0x']
    ptys = ['u8', 'i8', 'u16', 'i64', 'u128', 'i128', 'usize', 'isize', 'f32', 'f64', 'char', 'bool', "&'static str", 'W']
    for li, lit in enumerate(lits):
        for ty in ptys:
            for sp_i, sp in enumerate(('Default = %s', 'Default(expression = %s)', 'Default(expression(%s))')):
                if sp_i and (li + len(ty)) % 3 != sp_i:
                    continue
                for hk, host in (('sn', 'struct Ty { a: u8, #[educe(%s)] z: %s }'), ('en', 'enum Ty { A, #[educe(Default)] B(#[educe(%s)] %s) }'), ('un', 'union Ty { #[educe(%s)] z: %s, b: u8 }')):
                    if hk != 'sn' and sp_i:
                        continue
                    if hk == 'un' and ty in ('W',):
                        continue
                    add('C17|default-literal|%d|%s|%d|%s' % (li, ty, sp_i, hk), '#[derive(Educe)]\n#[educe(Default)]\n%s\n' % (host % (sp % lit, ty)), {'literal': lit, 'field_type': ty, 'spelling': sp % lit})
    # explicit bound modes of every trait on parameter lists with inline bounds, defaults, attributes and const parameters (code paths that turn parameters into predicates)
    gens2 = dict(gens)
    gens2.update({'inline-bounds': ('<K: ::core::fmt::Display + Copy, V: Copy = u8>', ''), 'attr-param': ('<#[allow(unused)] T: Copy, #[cfg(all())] U: Copy>', ''),
                  'const-default': ("<'a, T: 'a + Copy, const N: usize = 2>", ''), 'qualified-bound': ('<T: ::core::marker::Copy + ?Sized, U: Copy>', 'where T: Sized'),
                  'paren-bound': ('<T: (Copy) + for<\'x> Fn(&\'x u8) -> u8>', '')})
    bmodes = {'star': 'bound(*)', 'custom': 'bound(u8: Copy)', 'off': 'bound = false', 'str': 'bound = "u8: Copy,"', 'empty': 'bound()'}
    btraits = {'Debug': 'Debug({B})', 'Clone': 'Clone({B})', 'CopyClone': 'Copy, Clone({B})', 'Copy': 'Copy({B}), Clone', 'PartialEq': 'PartialEq({B})', 'Eq': 'PartialEq, Eq({B})', 'PartialOrd': 'PartialEq, PartialOrd({B})',
               'Ord': 'PartialEq, Eq, PartialOrd, Ord({B})', 'Hash': 'Hash({B})', 'Default': 'Default({B})', 'Into': 'Into(u8, {B})'}
    for gk, (g, w) in gens2.items():
        used = [x.strip().split(':')[0].split('=')[0].split(']')[-1].strip() for x in g.strip('<>').rstrip(',').split(',') if x.strip() and not x.strip().startswith(('const', "'")) and ':' in x or x.strip() in ('T', 'U')]
        used = [u for u in used if u and u[0].isupper() and u.isalnum()]
        ph = ', '.join('::core::marker::PhantomData<%s>' % u for u in dict.fromkeys(used)) or '()'
        lt = "&'a u8" if "'a" in g else 'u8'
        for bk, bm in bmodes.items():
            for tk, tl in btraits.items():
                vd = '#[educe(Default)] ' if 'Default' in tl else ''
                for kind, decl in (('sn', 'struct Ty%s %s { x: u8, y: %s, p: (%s) }' % (g, w, lt, ph)), ('en', 'enum Ty%s %s { %sA(u8, %s, (%s)), B { x: u8, p: (%s) } }' % (g, w, vd, lt, ph, ph))):
                    if tk == 'Into' and kind == 'en':
                        continue
                    add('C17|bounds|%s|%s|%s|%s' % (gk, bk, tk, kind), '#[derive(Educe)]\n#[educe(%s)]\n%s\n' % (tl.replace('{B}', bm), decl), {'generics': g, 'where': w, 'bound': bm, 'traits': tk})
    # raw identifiers as field, variant, type and parameter names under every trait set with field-level parameters
    for fk, (tl, fm) in fsets.items():
        vd = '#[educe(Default)] ' if 'Default' in tl else ''
        for rk, decl in (('field', 'struct Ty { %sr#type: u8, r#match: u16 }' % fm), ('field2', 'struct Ty { r#fn: u16, %sr#loop: u8 }' % fm),
                         ('variant-field', 'enum Ty { %sA { %sr#type: u8, r#in: u16 }, B { %sr#match: u8 } }' % (vd, fm, fm)), ('variant', 'enum Ty { %sr#struct(%su8), r#enum { %sr#type: u8 } }' % (vd, fm, fm)),
                         ('typename', 'struct r#type { %sx: u8 }' % fm), ('typaram', 'struct Ty<r#dyn> { %sx: u8, y: ::core::marker::PhantomData<r#dyn> }' % fm),
                         ('constparam', 'struct Ty<const r#const: usize> { %sx: u8, y: [u8; r#const] }' % fm), ('lifetime', "struct Ty<'r#a> { %sx: u8, y: &'r#a u8 }" % fm)):
            add('C17|raw|%s|%s' % (rk, fk), '#[derive(Educe)]\n#[educe(%s)]\n%s\n' % (tl, decl), {'raw_identifier_as': rk, 'traits': fk})
    for ts in ('PartialEq, PartialOrd', 'PartialEq, Eq, PartialOrd, Ord', 'PartialEq, Eq, Ord'):
        tk = ts.replace('PartialEq, ', '').replace('Eq, ', '')
        for repr, (lo, hi) in list(BOUNDS.items()) + [(None, BOUNDS['isize'])]:
            ra = '#[repr(%s)]\n' % repr if repr else ''
            for vk, v in (('max', hi), ('min', lo), ('max+1', hi + 1), ('min-1', lo - 1)):
                for pk, body in (('last', 'A, B, C = %d' % v), ('first', 'A = %d, B, C' % v), ('middle', 'A, B = %d, C' % v), ('only', 'A = %d' % v), ('payload', 'A(u8), B { x: u8 } = %d, C' % v),
                                 ('twice', 'A = %d, B = %d' % (v, v)), ('max-then-min', 'A = %d, B = %d, C' % (hi, lo))):
                    add('C17|disc|%s|%s|%s|%s' % (tk, repr, vk, pk), '#[derive(Educe)]\n%s#[educe(%s)]\nenum Ty { %s }\n' % (ra, ts, body), {'repr': repr, 'discriminant': v, 'position': pk})
        for di, d in enumerate(DISCS):
            for repr in (None, 'u8', 'i128', 'u128'):
                ra = '#[repr(%s)]\n' % repr if repr else ''
                add('C17|disc-expr|%s|%s|%d' % (tk, repr, di), 'pub const K: isize = 4;\n#[derive(Educe)]\n%s#[educe(%s)]\nenum Ty { A = %s, B, C = 77 }\n' % (ra, ts, d), {'repr': repr, 'discriminant': d})
    return out


def double_mutations(tier):
    """thorough: every pair of single mutations applied to the innermost argument list of each seed (XP pre-pass)"""
    out = []
    seen = set()
    for sid, tpl, args in seeds():
        tt = tokenize(args)
        small = ['x', 'unsafe', 'false', '-1', '""', '=', ',', ['(', [], ')'], '*']
        for d1, m1 in mutations(tt, small):
            if d1.startswith(('ins', 'rep')) and shash(d1) % 3:
                continue
            for d2, m2 in mutations(m1, small[:6]):
                if d2.startswith(('ins', 'rep')) and shash(d2 + d1) % 5:
                    continue
                a = render(m2)
                text = tpl.replace('{{', '\x00').replace('}}', '\x01').replace('{A}', a).replace('\x00', '{').replace('\x01', '}')
                if text in seen:
                    continue
                seen.add(text)
                out.append(('C17|%s|%s+%s' % (sid, d1, d2), text, sid))
    return out


def check(v, tier):
    cases = cases_for(tier)
    guard(len({c.key for c in cases}) == len(cases), 'duplicate keys')
    # inputs that aim at retry loops are compiled one per compiler process under a short cap, so that a hang costs one cap, not a bisection
    solo = [c for c in cases if c.key.startswith('C17|fresh|')]
    rest = [c for c in cases if not c.key.startswith('C17|fresh|')]
    res = rt_run(rest, run=False, name='C17', shard_size=400, compile_timeout=90, single_round=True, extra_prelude='pub fn m() {}\n')
    res += rt_run(solo, run=False, name='C17s', shard_size=1, compile_timeout=30, single_round=True, extra_prelude='pub fn m() {}\n')
    cases = rest + solo
    v.add_states(cases)
    outcomes = {}
    for r in res:
        v.cov['evaluations'] += 1
        v.cov['traces_validated_against_impl'] += 1
        st = r.status
        outcomes[st] = outcomes.get(st, 0) + 1
        if st == 'panic':
            v.violation(r.case, 'proc-macro derive panicked: %s' % ' | '.join(d['msg'][:200] + ' ' + ' '.join(d.get('notes', []))[:200] for d in r.errors()[:2]))
        elif st in ('timeout', 'crash'):
            v.violation(r.case, 'the compiler %s while expanding this input: %s' % ('did not finish within the cap' if st == 'timeout' else 'crashed', r.errors()[0]['msg'][:300]))
        elif st == 'parse_abort':
            outcomes['out_of_domain'] = outcomes.get('out_of_domain', 0) + 1
    v.notes['outcomes'] = outcomes
    # thorough: double mutations through the in-process engine; every candidate is confirmed through the real macro
    if tier != 'quick':
        binary = xp.build_xp()
        dm = double_mutations(tier)
        xres = xp.expand_all(binary, [t for _, t, _ in dm])
        cands = [Case(k, t, {'seed': s}, expect='any', run=False, depth=2) for (k, t, s), r in zip(dm, xres) if r['st'] == 'panic']
        v.cov['states'] += len(dm)
        v.cov['transitions'] += 2 * len(dm)
        v.cov['evaluations'] += len(dm)
        v.notes['double_mutations_in_process'] = len(dm)
        v.notes['in_process_panic_candidates'] = len(cands)
        if cands:
            for r in rt_run(cands, run=False, name='C17c', shard_size=200, single_round=True, extra_prelude='pub fn m() {}\n'):
                v.cov['traces_validated_against_impl'] += 1
                if r.status in ('panic', 'timeout', 'crash'):
                    v.violation(r.case, 'proc-macro derive panicked (found in-process, confirmed through rustc): %s' % r.errors()[0]['msg'][:200])
    v.cov['distinct_nontrivial'] = sum(1 for r in res if r.status in ('educe_diag',))
    for c in cases[::max(1, len(cases) // 8)][:8]:
        v.sample({'key': c.key, 'input': c.body})
    guard(outcomes.get('ok', 0) + outcomes.get('gen_error', 0) + outcomes.get('hand_error', 0) > 50, 'no mutated input was accepted: the corpus is degenerate')
    guard(outcomes.get('educe_diag', 0) > 1000, 'too few inputs were refused with a diagnostic')
    guard(outcomes.get('out_of_domain', 0) == 0, 'some inputs were rejected by the compiler\'s own parser before any macro ran')
    return v.finish('seeds: every documented attribute form at type / variant / field / union-field level on a matching shape; every single token-tree mutation of the argument list at every '
                    'nesting level: delete, duplicate, swap adjacent, replace by / insert each element of a 32-token alphabet (identifiers, unsafe, booleans, numbers incl. the isize boundaries, strings, char, = , :: * - '
                    'lifetime < > and empty groups in each delimiter), re-delimit or unwrap every group; attribute forms (#[educe], #[educe = lit], empty and malformed lists, raw identifiers, '
                    'out-of-range numbers) at six host positions; the item itself: 18 degenerate shapes (zero-field tuple / struct variants and structs, unit, empty, single-field, unions, generics) under 19 trait sets with and without markers; 9 generics / where-clause layouts and raw identifiers in 8 roles under 10 trait sets with field-level parameters; 43 exotic field types (parenthesised and multi-bound trait objects, fn pointers, raw pointers, never, qualified paths, macro types, unsized and self-referential types, ...) under ten trait sets, as Into bystander / source / target and as Deref target, on structs, enums and unions; enum discriminants at the minimum, the maximum and one beyond for every #[repr] at five positions, and 28 literal / non-literal discriminant expressions; nesting depths 1..256 (thorough ..2048) of ten recursive constructs, types with up to 256 fields / variants; all through '
                    'the real macro inside rustc (one expansion round; a sentinel request at the end of every shard proves expansion reached it); thorough: pairs of mutations in-process, every '
                    'panic candidate confirmed through rustc.  Oracle: accepted or refused with a diagnostic; "proc-macro derive panicked", a compiler crash or exceeding the cap (bisected to '
                    'the case) is a violation; non-trivial = inputs refused by an educe diagnostic',
                    {'bounds': {'tier': tier, 'mutations_per_state': 1 if tier == 'quick' else 2}})
