"""C07 — Clone / clone_from reproduce the source field by field; Copy."""
import itertools

from .. import shapes as S
from ..core import Case
from .common import place, CTX
from .c02 import assignments, assignments_k, WIDE, VERYWIDE, verywide_assignments

CFGS = {'C': 'Clone', 'CC': 'Copy, Clone', 'CC2': 'Clone, Copy'}


def build(shape, assign, cfg, ctx='alone', bound=None, honour=False, pe=False):
    copy = cfg != 'C'
    has_method = any('m' in a for a in assign)
    tys, fattrs = [], []
    salt = 0
    for vi, f in enumerate(shape.variants):
        t, a = [], []
        for fi in range(f.n):
            ch = assign[vi][fi]
            salt += 1
            own = None
            if ch == 'm':
                own = 'Clone(method(clone_m))' if salt % 2 else 'Clone(method = "clone_m")'
            t.append('K')
            lines = place(own, 'Debug(ignore)', ctx)
            if pe:      # an educed PartialEq that calls every two values equal: Clone may not consult it
                lines = lines + ['#[educe(PartialEq(ignore))]'] if salt % 2 else ['#[educe(PartialEq = false)]'] + lines
            a.append(lines)
        tys.append(t)
        fattrs.append(a)
    traits = CFGS[cfg]
    if bound:
        traits = traits.replace('Clone', 'Clone(%s)' % bound)
    if pe:
        traits = ('PartialEq, ' + traits) if len(assign[0]) % 2 else (traits + ', PartialEq')
    if ctx != 'alone':
        traits = ('Debug, ' + traits) if ctx.endswith('before') else (traits + ', Debug')
    src = S.render_type(shape, ['#[educe(%s)]' % traits], tys, fattrs, derives='Educe')
    # values: two per variant with pairwise distinct vals
    vals = []
    base = 1
    for rep in range(2):
        for vi, f in enumerate(shape.variants):
            ex = ['k(%d)' % (base + i) for i in range(f.n)]
            base += max(f.n, 1) + 3
            if shape.kind == 'union':
                vals.append('Ty { f%d: %s }' % (rep % f.n, ex[0]))
            else:
                vals.append(S.ctor(shape, vi, ex))
    if shape.kind == 'union':
        mk = ''.join('        %d => %s,\n' % (i, v) for i, v in enumerate(vals))
    else:
        mk = ''.join('        %d => %s,\n' % (i, v) for i, v in enumerate(vals))
    src += 'fn mk(i: usize) -> Ty {\n    match i {\n%s        _ => unreachable!(),\n    }\n}\n' % mk
    arms, harms = [], []
    bitwise = copy and not (has_method and (shape.kind == 'enum' or honour))
    for vi, f in enumerate(shape.variants):
        binds = ['a%d' % i for i in range(f.n)]
        if shape.kind == 'union':
            continue
        arms.append('        %s => (%d, vec![%s]),\n' % (S.pattern(shape, vi, binds), vi,
                                                     ', '.join('(a%d.val, a%d.how)' % (i, i) for i in range(f.n))))
        hows = ['0' if bitwise else ('2' if assign[vi][i] == 'm' else '1') for i in range(f.n)]
        harms.append('        %d => vec![%s],\n' % (vi, ', '.join(hows)))
    if shape.kind == 'union':
        # every field is a K at offset 0; variant = 0
        arms.append('        u => (0, vec![unsafe { (u.f0.val, u.f0.how) }]),\n')
        harms.append('        _ => vec![0],\n')
    else:
        harms.append('        _ => unreachable!(),\n')
    src += 'fn fp(x: &Ty) -> (usize, Vec<(u8, u8)>) {\n    match x {\n%s    }\n}\n' % ''.join(arms)
    src += 'fn hows(v: usize) -> Vec<u8> {\n    match v {\n%s    }\n}\n' % ''.join(harms)
    src += 'pub fn check(r: &mut Rep) {\n'
    src += '    clone_check(r, %d, &mk, &fp, &hows, &|x| x.clone(), &|a, b| a.clone_from(b));\n' % len(vals)
    if copy:
        src += '    r.ck(probe!(Ty: Copy), 20, &|| "the type is not Copy although Copy is educed".to_string());\n'
    else:
        src += '    r.ck(!probe!(Ty: Copy), 21, &|| "the type is Copy although Copy is not educed".to_string());\n'
    src += '}\n'
    depth = sum(1 for a in assign for ch in a if ch != 'o') + (cfg != 'C') + (ctx != 'alone')
    key = 'C07|%s|%s|%s%s%s%s' % (cfg, shape.code(), ','.join(assign), '' if ctx == 'alone' else '|' + ctx, '|' + bound if bound else '', '|+PartialEq' if pe else '')
    return Case(key, src, {'cfg': cfg, 'shape': shape.code(), 'assign': list(assign), 'ctx': ctx, 'values': len(vals)},
                expect='accept', run=True, depth=depth)


def generate(tier):
    cases = []
    if tier == 'quick':
        shapes = S.struct_shapes(3, with_empty=True) + S.enum_shapes(2, 2) + S.enum_shapes(3, 1, vmin=3)
    else:
        shapes = S.struct_shapes(4, with_empty=True) + S.enum_shapes(3, 2) + S.enum_shapes(2, 3, vmin=2)
    seen = set()
    for sh in shapes:
        if sh.code() in seen:
            continue
        seen.add(sh.code())
        for cfg in CFGS:
            alph = 'o' if (sh.kind == 'struct' and cfg != 'C') else 'om'
            for assign in assignments(sh, alph):
                cases.append(build(sh, assign, cfg))
    # the same type also educes a PartialEq that ignores every field (all values compare equal): cloning is not comparison
    for sh in S.struct_shapes(2) + S.enum_shapes(2, 2):
        for cfg in ('C', 'CC'):
            alph = 'o' if (sh.kind == 'struct' and cfg != 'C') else 'om'
            for assign in assignments(sh, alph):
                if sh.positions():
                    cases.append(build(sh, assign, cfg, pe=True))
    for sh in WIDE:
        for cfg in CFGS:
            alph = 'o' if (sh.kind == 'struct' and cfg != 'C') else 'om'
            for assign in assignments_k(sh, alph, 2 if tier == 'quick' else 3):
                cases.append(build(sh, assign, cfg))
    for sh in S.struct_shapes(2) + S.enum_shapes(2, 2):
        for cfg in CFGS:
            alph = 'o' if (sh.kind == 'struct' and cfg != 'C') else 'om'
            for assign in assignments(sh, alph):
                for bound in ('bound = false', 'bound(*)', 'bound(u8: Copy)', 'bound = ""'):
                    cases.append(build(sh, assign, cfg, bound=bound))
    for sh in VERYWIDE:
        for cfg in ('C', 'CC'):
            alph = 'o' if (sh.kind == 'struct' and cfg != 'C') else 'om'
            for assign in verywide_assignments(sh, alph):
                cases.append(build(sh, assign, cfg))
    # two named variants that use the same field names at different positions (V0 {f0, f1}, V1 {f1, f0})
    for sh in [S.Shape('enum', [S.Fields('n', 2), S.Fields('n', 2)]), S.Shape('enum', [S.Fields('t', 1), S.Fields('n', 2)]), S.Shape('enum', [S.Fields('n', 1), S.Fields('u'), S.Fields('n', 3)])]:
        for assign in assignments(sh, 'om'):
            for cfg in ('C', 'CC'):
                with S.naming('rot'):
                    c = build(sh, assign, cfg)
                c.key += '|rot'
                cases.append(c)
    # `Clone(method)` on a field of a `Copy, Clone` struct: educe documents the method for enums only and refuses it on structs; if a version accepts it,
    # the method has to be honoured like everywhere else (refused or honoured - never accepted and ignored)
    for sh in S.struct_shapes(2):
        if not sh.positions():
            continue
        for cfg in ('CC', 'CC2'):
            for assign in assignments(sh, 'om'):
                if not any('m' in a for a in assign):
                    continue
                c = build(sh, assign, cfg, honour=True)
                c.key += '|refused-or-honoured'
                c.expect = 'any'
                cases.append(c)
    for kind, decl, mk in (('en', 'pub enum Ty<T, U> { A(T, #[educe(Clone(method(clone_m)))] K), B { x: U, #[educe(Clone(method(clone_m)))] y: K }, C }', 'Ty::<{T}, {U}>::A({t}, k(1))'),
                           ('en2', 'pub enum Ty<T, U> { A(#[educe(Clone(method(clone_m)))] K, T, U), B }', 'Ty::<{T}, {U}>::A(k(1), {t}, {u})')):
        for tl in ('Copy, Clone', 'Clone, Copy'):
            src = '#[derive(Educe)]\n#[educe(%s)]\n%s\n' % (tl, decl)
            src += ('pub fn check(r: &mut Rep) {\n'
                    '    r.ck(probe!(Ty<String, u8>: Clone), 0, &|| "with a method the impl clones field by field: Ty<String, u8> must be Clone".to_string());\n'
                    '    r.ck(!probe!(Ty<String, u8>: Copy), 1, &|| "Ty<String, u8> is Copy although String is not".to_string());\n'
                    '    r.ck(probe!(Ty<u8, u16>: Copy) && probe!(Ty<u8, u16>: Clone), 2, &|| "Ty<u8, u16> must be Copy and Clone".to_string());\n'
                    '    r.ck(!probe!(Ty<No, u8>: Clone), 3, &|| "Ty<No, u8> is Clone although No is not".to_string());\n'
                    '    let a = %s;\n    let b = a.clone();\n'
                    '    r.ck(matches!(&b, Ty::A(..)), 4, &|| "clone changed the variant".to_string());\n}\n') % mk.replace('{T}', 'String').replace('{U}', 'u8').replace('{t}', 'String::from("s")').replace('{u}', '7u8')
            cases.append(Case('C07|generic-method|%s|%s' % (kind, tl), src, {'shape': kind, 'traits': tl}, expect='accept', run=True, depth=2))
    # items whose own where-clause is needed for well-formedness (a projection-typed field): every impl has to repeat it
    for kind, decl, mk in (('sn', 'pub struct Ty<T> where T: Pr { pub a: <T as Pr>::Out, {M}pub b: K }', 'Ty::<Yes> { a: Yes, b: k(1) }'),
                           ('st', 'pub struct Ty<T>(pub <T as Pr>::Out, {M}pub K) where T: Pr;', 'Ty::<Yes>(Yes, k(1))'),
                           ('en', 'pub enum Ty<T> where T: Pr { A(<T as Pr>::Out, {M}K), B { x: <T as Pr>::Out, {M}y: K }, C }', 'Ty::<Yes>::A(Yes, k(1))')):
        for tl in ('Clone', 'Copy, Clone'):
            for m in ('', '#[educe(Clone(method(clone_m)))] '):
                if m and tl != 'Clone' and kind != 'en':
                    continue
                src = '#[derive(Educe)]\n#[educe(%s)]\n%s\n' % (tl, decl.replace('{M}', m))
                get = {'sn': 'y.b', 'st': 'y.1', 'en': 'match &y { Ty::A(_, q) => *q, Ty::B { y: q, .. } => *q, Ty::C => k(0) }'}[kind]
                src += ('pub fn check(r: &mut Rep) {\n    let x = %s;\n    let y = x.clone();\n    let q: K = %s;\n    r.ck(q.val == 1, 0, &|| format!("clone() does not reproduce the field: {}", q.val));\n'
                        '    let mut z = %s;\n    z.clone_from(&x);\n    let _ = &z;\n}\n') % (mk, get, mk.replace('k(1)', 'k(5)'))
                cases.append(Case('C07|where-clause|%s|%s|%s' % (kind, tl, 'method' if m else 'plain'), src, {'shape': kind, 'traits': tl}, expect='accept', run=True, depth=2))
    from .common import zoo_cases
    cases += zoo_cases('C07', 'Clone', 'Debug, PartialEq', 'Debug, PartialEq, Clone',
                       '    for (i, (a, _)) in vs.iter().enumerate() {\n        let c = a.clone();\n'
                       '        r.ck(c == *a, 0, &|| format!("value #{}: the clone {:?} differs from the source {:?}", i, c, a));\n'
                       '        for (j, (b, _)) in vs.iter().enumerate() {\n            let mut d = a.clone();\n            d.clone_from(b);\n'
                       '            r.ck(d == *b, 1, &|| format!("values #{} <- #{}: clone_from gives {:?}, expected {:?}", i, j, d, b));\n        }\n    }\n')
    cases += zoo_cases('C07|zm', 'Clone', 'Debug, PartialEq', 'Debug, PartialEq, Clone',
                       '    for (i, (a, _)) in vs.iter().enumerate() {\n        let c = a.clone();\n'
                       '        r.ck(c == *a, 0, &|| format!("value #{}: the clone {:?} differs from the source {:?}", i, c, a));\n'
                       '        for (j, (b, _)) in vs.iter().enumerate() {\n            let mut d = a.clone();\n            d.clone_from(b);\n'
                       '            r.ck(d == *b, 1, &|| format!("values #{} <- #{}: clone_from gives {:?}, expected {:?}", i, j, d, b));\n        }\n    }\n', z_attr='Clone(method(zoo_m_clone))')
    from .common import rawify
    for c in [x for x in cases if x.key.startswith('C07|C|s:n2|') or x.key.startswith('C07|C|e:n2,n1|') or x.key.startswith('C07|CC|e:n1,n2|')]:
        r_ = rawify(c)
        if r_:
            cases.append(r_)
    from .common import underscorify
    for c in [x for x in cases if (x.key.startswith('C07|C|s:n2|') or x.key.startswith('C07|C|e:n2,n1|') or x.key.startswith('C07|CC|e:n1,n2|') or x.key.startswith('C07|C|s:n3|')
                                   or x.key.startswith('C07|CC|s:n2|')) and '|raw' not in x.key]:
        r_ = underscorify(c)
        if r_:
            cases.append(r_)
        from .common import localsify
        for sch in (0, 1, 2):
            r_ = localsify(c, sch)
            if r_:
                cases.append(r_)
    # unions (fields must be Copy; only `Copy, Clone` is documented)
    for n in (1, 2, 3):
        sh = S.Shape('union', [S.Fields('n', n)])
        for cfg in ('CC', 'CC2'):
            cases.append(build(sh, ['o' * n], cfg))
    for sh in S.struct_shapes(2, with_unit=False) + S.enum_shapes(2, 2, with_unit=False)[:12] + [S.Shape('enum', [S.Fields('u'), S.Fields('t', 2)])]:
        for assign in assignments(sh, 'om'):
            for ctx in CTX[1:]:
                cases.append(build(sh, assign, 'C', ctx=ctx))
                if not (sh.kind == 'struct' and 'm' in ''.join(assign)):
                    cases.append(build(sh, assign, 'CC' if ctx.endswith('before') else 'CC2', ctx=ctx))
    from .common import decoy_layer
    cases += decoy_layer([c for c in cases if c is not None])
    seen, out = set(), []
    for c in cases:
        if c.key not in seen:
            seen.add(c.key)
            out.append(c)
    return out


RULE = ('wide shapes (5-6 fields, 5-6 variants) with at most 2 (thorough 3) method fields; every struct/enum shape within the bound x {own Clone, method} per field x {Clone; Copy, Clone; Clone, Copy} '
        '(+ unions with Copy, Clone) x attribute contexts x type-level Clone bound parameters (the type is concrete, so every bound mode must leave behaviour and Copy-ness unchanged); fields are an instrumented Copy type whose Clone marks its result '
        'and counts calls, the custom method marks differently; per program clone() of every value (variant, values, marks, '
        'exact call counts, source untouched) and a.clone_from(&b) for every ordered pair (result equals the modelled '
        'b.clone(), exact call counts); Copy probed at compile time; with Copy and no method in use clone must be bitwise '
        '(no Clone call, marks unchanged); non-trivial = both same-variant and cross-variant clone_from observed')


def check(v, tier):
    from .common import run_behavioural
    cases = generate(tier)
    run_behavioural(v, cases, 'C07', nontrivial_min=5, min_nontrivial_ratio=0.5)
    return v.finish(RULE, {'bounds': {'tier': tier}})
