"""C15 — each trait's impl depends only on that trait's own attributes."""
import itertools

from .. import catalog as K
from .. import xp
from ..core import Case, guard, log


def own_items(res, group, partner):
    paths = [K.TRAIT_PATH[group]]
    if partner and group in K.PARTNER:
        paths.append(K.TRAIT_PATH[K.PARTNER[group]])
    out = []
    for it in res.get('items', []):
        tr = it['tr']
        if group == 'Into':
            if tr.startswith(K.TRAIT_PATH['Into']):
                out.append(xp.item_key(it))
        elif tr in paths:
            out.append(xp.item_key(it))
        elif group == 'Default' and tr == '':
            out.append(xp.item_key(it))
    return sorted(out)


def generate(tier):
    """yields (key, shape, group, partner, own cfg, [other cfgs], order, split)"""
    level_shapes = K.xshapes('small' if tier == 'quick' else 'full')
    if tier == 'quick':
        # (of the shapes with pairwise distinct field types the quick tier keeps the struct, for the Into requests that carry no marker and find their field by its type)
        level_shapes = [sh for sh in level_shapes if not sh.code().endswith(('|ty', '|w')) or (sh.kind == 'struct' and sh.code().endswith('|ty'))]
    for shape in level_shapes:
        unmarked_only = tier == 'quick' and shape.code().endswith('|ty')
        for g in K.GROUPS:
            if unmarked_only and g != 'Into':
                continue
            for partner in ([False, True] if g in K.PARTNER else [False]):
                owns = K.group_configs(g, shape, 'small' if tier == 'quick' else 'full', partner)
                if unmarked_only:
                    owns = [o for o in owns if 'unmarked:' in o.key]
                if tier != 'quick' and len(owns) > 40:
                    owns = owns[::max(1, len(owns) // 40)]
                if not owns:
                    continue
                others = [h for h in K.GROUPS if h != g]
                plain = {}
                small = {}
                for h in others:
                    for hp in ([False, True] if h in K.PARTNER else [False]):
                        cs = K.group_configs(h, shape, 'plain', hp)
                        if cs:
                            plain[(h, hp)] = cs[0]
                        cs2 = K.group_configs(h, shape, 'small', hp)
                        if cs2:
                            small[(h, hp)] = cs2
                hs = sorted({h for h, _ in plain})
                for cg in owns:
                    # every subset of the other groups at the plain level
                    for r in range(1, len(hs) + 1):
                        for sub in itertools.combinations(hs, r):
                            if tier == 'quick' and (r not in (1, 2, len(hs)) or (r == 2 and (len(cg.key) + len(sub[0]) + len(sub[1])) % 3 == 0)):
                                continue
                            # partner choice rotates with the subset size
                            cfgs = []
                            for h in sub:
                                hp = (h in K.PARTNER) and ((len(sub) + len(h)) % 2 == 0) and (h, True) in plain
                                cfgs.append(plain[(h, hp)])
                            for order in ((0, 1) if r <= 1 else ((r + len(cg.key)) % 2,)):
                                for split in ((('one', 'each', 'onec', 'eachf') if order == 0 else ('one', 'each', 'eachf')) if r <= 1 else (('one', 'each', 'onec', 'eachc', 'eachf')[(r + order + len(sub[0])) % 5],)):
                                    yield (shape, g, partner, cg, cfgs, order, split)
                    # other traits with parameters of their own on the same fields: k <= 2 (thorough 3)
                    kmax = 2 if tier == 'quick' else 3
                    keys = sorted(small)
                    for r in range(1, kmax + 1):
                        for sub in itertools.combinations(keys, r):
                            if len({h for h, _ in sub}) < r:
                                continue
                            lists = [small[k_][1:4] if r > 1 else small[k_][1:] for k_ in sub]
                            if any(not l for l in lists):
                                continue
                            if r == 3:
                                lists = [l[:1] for l in lists]
                            for combo in itertools.product(*lists):
                                yield (shape, g, partner, cg, list(combo), (r + len(combo[0].key)) % 2, ('one', 'each', 'onec')[(len(cg.key) + len(combo[0].key)) % 3])


def check(v, tier, only=None):
    binary = xp.build_xp()
    xp.init_canon(binary)
    from .. import realmacro
    gen = generate(tier)
    alone_src, ares = {}, {}
    states = set()
    nontriv = 0
    classes = set()
    total_transitions = 0
    conf_inputs, conf_res = [], []
    sample_every = 0
    CHUNK = 120000
    while True:
        reqs = list(itertools.islice(gen, CHUNK))
        if not reqs:
            break
        if only:
            reqs = [q for q in reqs if 'C15|%s|%s|%s|+%s|o%d|%s' % (q[0].code(), q[1] + ('+' + K.PARTNER[q[1]] if q[2] else ''), q[3].key, '+'.join(c.key for c in q[4]), q[5], q[6]) == only]
            if not reqs:
                continue
        inputs = []
        new_alone = []
        for (shape, g, partner, cg, cfgs, order, split) in reqs:
            ak = (shape.code(), g, partner, cg.key)
            if ak not in alone_src:
                alone_src[ak] = K.render(shape, cg)
                new_alone.append(ak)
            merged = K.merge([cg] + cfgs) if order == 0 else K.merge(cfgs + [cg])
            inputs.append(K.render(shape, merged, split))
        if new_alone:
            ares.update(zip(new_alone, xp.expand_all(binary, [alone_src[k] for k in new_alone], noraw=True, hashbody=not only)))
        res = xp.expand_all(binary, inputs, noraw=True, hashbody=not only)
        if not only and len(conf_inputs) < 60000:
            conf_inputs += [alone_src[k] for k in new_alone] + inputs[::7]
        for req, src, r in zip(reqs, inputs, res):
            (shape, g, partner, cg, cfgs, order, split) = req
            ak = (shape.code(), g, partner, cg.key)
            a = ares[ak]
            key = 'C15|%s|%s|%s|+%s|o%d|%s' % (shape.code(), g + ('+' + K.PARTNER[g] if partner else ''), cg.key, '+'.join(c.key for c in cfgs), order, split)
            hk = hash(key)
            if hk in states:
                continue
            states.add(hk)
            total_transitions += 1 + len(cfgs)
            v.cov['evaluations'] += 1
            if a['st'] != 'ok':
                classes.add('own-refused')
                continue    # the stand-alone request is itself refused: nothing to compare (acceptance is C01/C13's business)
            v.cov['traces_validated_against_impl'] += 1
            if len(v.cov['samples']) < 5 and v.cov['evaluations'] % 30011 == 1:
                v.sample({'group': g, 'own': cg.key, 'others': [c.key for c in cfgs], 'input': src})
            bad = None
            if r['st'] != 'ok':
                bad = 'the stand-alone request expands, but with other traits added it ends as %s: %s' % (r['st'], r.get('msg', '')[:200])
            else:
                oa, oc = own_items(a, g, partner), own_items(r, g, partner)
                classes.add('compared')
                if len(r.get('items', [])) > len(oc):
                    nontriv += 1
                if not oa:
                    bad = 'the stand-alone expansion contains no item for %s' % g
                elif oa != oc:
                    if not only and len(v.violations) < 45:      # the comparison ran on hashed bodies: expand the two inputs once more in full for the report
                        fa, fc = xp.expand_all(binary, [alone_src[ak], src])
                        oa, oc = own_items(fa, g, partner), own_items(fc, g, partner)
                    bad = 'the items generated for %s differ when other traits are present:\n alone:    %s\n combined: %s' % (g, oa[:2], oc[:2])
            if bad:
                case = Case(key, '// stand-alone:\n' + alone_src[ak] + '\n// combined:\n' + src, {'shape': shape.code(), 'group': g, 'own': cg.key,
                                                                                                 'others': [c.key for c in cfgs]}, run=False, depth=len(cfgs))
                v.violation(case, bad)
    # every Into(T) is a trait of its own: the impl of Into<T> must not depend on which other targets are requested, on their markers or on their order
    if not only:
        tg = ['u8', 'u16', 'u64', 'W']
        decls = {'sn': 'struct Ty<A, B, C> {{ {0}a: A, {1}b: B, {2}c: C }}', 'st': 'struct Ty<A, B, C>({0}A, {1}B, {2}C);',
                 'en': 'enum Ty<A, B, C> {{ V0({0}A, {1}B, {2}C), V1 {{ {2}x: C, {0}y: A, {1}z: B }} }}'}
        fam = []
        for dk, decl in decls.items():
            for own in tg:
                for k in (1, 2):
                    for others in itertools.permutations([t for t in tg if t != own], k):
                        for pos in range(k + 1):
                            order = list(others[:pos]) + [own] + list(others[pos:])
                            marks = ['#[educe(Into(%s))] ' % t for t in [own] + list(others)] + ['']
                            alone = '#[derive(Educe)] #[educe(Into(%s))] %s' % (own, decl.format(marks[0], '', ''))
                            comb = '#[derive(Educe)] #[educe(%s)] %s' % (', '.join('Into(%s)' % t for t in order), decl.format(marks[0], marks[1], marks[2] if k == 2 else ''))
                            fam.append(('C15|into-targets|%s|%s|+%s|@%d' % (dk, own, '+'.join(others), pos), own, alone, comb))
        ra = xp.expand_all(binary, [f_[2] for f_ in fam])
        rc = xp.expand_all(binary, [f_[3] for f_ in fam])
        canon_t = dict(zip(tg, xp.retokenise(binary, ['%s < %s >' % (K.TRAIT_SRC['Into'] if hasattr(K, 'TRAIT_SRC') and 'Into' in K.TRAIT_SRC else '::core::convert::Into', t) for t in tg])))
        for (key, own, alone, comb), a, r in zip(fam, ra, rc):
            if hash(key) in states:
                continue
            states.add(hash(key))
            total_transitions += 2
            v.cov['evaluations'] += 1
            if a['st'] != 'ok':
                continue
            v.cov['traces_validated_against_impl'] += 1
            pick = lambda res: sorted(xp.item_key(it) for it in res.get('items', []) if it['tr'] == canon_t[own])
            bad = None
            if r['st'] != 'ok':
                bad = 'Into(%s) alone expands, but with other Into targets added it ends as %s: %s' % (own, r['st'], r.get('msg', '')[:200])
            elif not pick(a):
                bad = 'the stand-alone expansion contains no impl of Into<%s>' % own
            elif pick(a) != pick(r):
                bad = 'the impl of Into<%s> differs when other Into targets are requested:\n alone:    %s\n combined: %s' % (own, pick(a)[:1], pick(r)[:1])
            else:
                nontriv += 1
            if bad:
                v.violation(Case(key, '// stand-alone:\n' + alone + '\n// combined:\n' + comb, {'own': 'Into(%s)' % own}, run=False, depth=2), bad)
    # every trait educed on its own (the companions Eq / Copy / Ord without their educed partner included) next to one other trait whose FIELD attribute is written
    # in each documented spelling (list, name-value short form, string): the other trait's attribute is none of the own trait's business.  Self-calibrating:
    # judged only where the own trait alone and the other trait alone (with that attribute) both expand
    if not only:
        OTHER = {
            'Hash': ['Hash(ignore)', 'Hash = false', 'Hash(ignore = true)', 'Hash(ignore(true))', 'Hash(method(hash_m))', 'Hash(method = "hash_m")', 'Hash = true'],
            'Debug': ['Debug = false', 'Debug(ignore)', 'Debug = renamed', 'Debug = "renamed"', 'Debug(name = renamed)', 'Debug(name(renamed))', 'Debug(name = "renamed")', 'Debug(method(fmt_m))', 'Debug(method = "fmt_m")', 'Debug(ignore = false)'],
            'Default': ['Default = 7', 'Default(expression = 7)', 'Default(expression(7))', 'Default = "7"', 'Default(expr = 7)', 'Default = -1', 'Default = 1.5', "Default = 'c'", 'Default = true'],
            'PartialEq': ['PartialEq = false', 'PartialEq(ignore)', 'PartialEq(method(eq_m))', 'PartialEq(method = "eq_m")'],
            'PartialOrd': ['PartialOrd = false', 'PartialOrd(ignore)', 'PartialOrd(rank = 2)', 'PartialOrd(rank(2))', 'PartialOrd(method(pc_m))', 'PartialOrd(method = "pc_m", rank = 1)'],
            'Ord': ['Ord = false', 'Ord(ignore)', 'Ord(rank = 2)', 'Ord(rank(2))', 'Ord(method(c_m))'],
            'Clone': ['Clone(method(cl_m))', 'Clone(method = "cl_m")'],
            'Into(u8)': ['Into(u8)', 'Into(u8, method(to_m))', 'Into(u8, method = "to_m")'],
            'Deref': ['Deref'],
        }
        COUPLED = [{'PartialEq', 'Eq'}, {'PartialOrd', 'Ord'}, {'Clone', 'Copy'}]
        OWN = ['Eq', 'Copy', 'Ord', 'PartialOrd', 'Clone', 'Debug', 'Hash', 'PartialEq', 'Default']
        cdecls = {'sn': 'struct Ty<A, B> {{ {0}a: A, {1}b: B }}', 'st': 'struct Ty<A, B>({0}A, {1}B);',
                  'en': 'enum Ty<A, B> {{ V0({0}A, {1}B), {D}V1 {{ {1}x: B, {0}y: A }} }}', 'un': 'union Ty<A: Copy, B: Copy> {{ {0}a: A, {1}b: B }}'}
        fam2, singles = [], {}

        def single(dk, tl, mark, pos):
            m = ['', '']
            if mark:
                m[pos] = '#[educe(%s)] ' % mark
            txt = '#[derive(Educe)] #[educe(%s)] %s' % (tl, cdecls[dk].format(m[0], m[1], D='#[educe(Default)] ' if 'Default' in tl else ''))
            singles.setdefault(txt, None)
            return txt
        for dk in cdecls:
            for own in OWN:
                for oth, forms in OTHER.items():
                    ot = oth.split('(')[0]
                    if ot == own or any(own in c and ot in c for c in COUPLED):
                        continue
                    for fi, form in enumerate(forms):
                        for pos in (0, 1):
                            for order in (0, 1):
                                if (fi + pos + order) % 2 and tier == 'quick':
                                    continue
                                a = single(dk, own, None, 0)
                                b = single(dk, oth, form, pos)
                                tl = '%s, %s' % ((own, oth) if order == 0 else (oth, own))
                                m = ['', '']
                                m[pos] = '#[educe(%s)] ' % form
                                comb = '#[derive(Educe)] #[educe(%s)] %s' % (tl, cdecls[dk].format(m[0], m[1], D='#[educe(Default)] ' if 'Default' in tl else ''))
                                fam2.append(('C15|lone|%s|%s|+%s|@%d|%s' % (dk, own, form, pos, 'own-first' if order == 0 else 'own-last'), own, a, b, comb))
        stxt = list(singles)
        for t_, r_ in zip(stxt, xp.expand_all(binary, stxt)):
            singles[t_] = r_
        rc = xp.expand_all(binary, [f_[4] for f_ in fam2])
        judged = 0
        for (key, own, a_t, b_t, comb), r in zip(fam2, rc):
            if hash(key) in states:
                continue
            states.add(hash(key))
            total_transitions += 2
            v.cov['evaluations'] += 1
            a, b = singles[a_t], singles[b_t]
            if a['st'] != 'ok' or b['st'] != 'ok':
                continue
            judged += 1
            v.cov['traces_validated_against_impl'] += 1
            path = K.TRAIT_PATH[own]
            pick = lambda res: sorted(xp.item_key(it) for it in res.get('items', []) if it['tr'] == path or (own == 'Default' and it['tr'] in (None, '')))
            bad = None
            if r['st'] != 'ok':
                bad = '%s alone expands and the other trait with this field attribute expands, but together they end as %s: %s' % (own, r['st'], r.get('msg', '')[:200])
            elif not pick(a):
                bad = 'the stand-alone expansion contains no impl of %s' % own
            elif pick(a) != pick(r):
                bad = 'the impl of %s differs when the other trait and its field attribute are present:\n alone:    %s\n combined: %s' % (own, pick(a)[:1], pick(r)[:1])
            else:
                nontriv += 1
            if bad:
                v.violation(Case(key, '// stand-alone:\n' + a_t + '\n// the other trait alone:\n' + b_t + '\n// combined:\n' + comb, {'own': own}, run=False, depth=2), bad)
        guard(judged * 3 >= len(fam2), 'the lone-trait family judged too few states (%d of %d)' % (judged, len(fam2)))
    if not only and conf_inputs:
        conf_inputs = conf_inputs[:6000 if tier == 'quick' else 40000]
        conf_res = xp.expand_all(binary, conf_inputs)
        realmacro.conformance(v, binary, conf_inputs, conf_res, limit=6000 if tier == 'quick' else 40000)
    v.cov['states'] = len(states)
    v.cov['transitions'] = total_transitions
    v.cov['distinct_nontrivial'] = nontriv
    if not v.cov['samples']:
        v.sample({'note': 'replay of a single state' if only else 'no sample'})
    guard(only or nontriv * 2 >= len(states), 'too few combined expansions contained other traits\' items')
    guard(only or 'compared' in classes, 'nothing compared')
    return v.finish('shapes {named/tuple struct, two enums, union; thorough: + unit struct, 3-variant enum with a unit variant, generic struct and enum} x trait '
                    'group g in {Debug, Clone[+Copy], PartialEq[+Eq], PartialOrd[+Ord], Hash, Default, Deref, DerefMut, Into} with its own '
                    'configurations (one deviation per configuration in quick, full product in thorough) x every subset of the other groups at the '
                    'plain level and k<=2 (thorough 3) other groups with parameters of their own on the same fields, in both list orders and with '
                    'one-list / one-attribute-per-meta splitting, with and without trailing commas; every Into(T) as a trait of its own (each target alone vs next to one or two other targets with their markers, every position in the list, on a generic named struct, tuple struct and enum); oracle: the impl items of g (by trait path; the inherent new() for Default) are '
                    'token-identical to those of the stand-alone expansion; non-trivial = the combined expansion contains items of other traits',
                    {'bounds': {'tier': tier, 'other_groups_with_parameters': 2 if tier == 'quick' else 3}})
