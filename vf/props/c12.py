"""C12 — explicit bound modes and the type's own generics are honoured verbatim (engine XP, structural)."""
import itertools

from .. import catalog as K
from .. import xp
from ..core import Case, guard

# generics contexts: (id, declaration, impl parameters (defaults removed), type arguments, type params, field types)
CONTEXTS = [
    ('none', '', [], [], [], ['u8', 'u16']),
    ('T', '<T>', ['T'], ['T'], ['T'], ['T', 'u8']),
    ('TU', '<T, U>', ['T', 'U'], ['T', 'U'], ['T', 'U'], ['T', 'Vec<U>']),
    ('ltc', "<'a, T: 'a + Marker, const N: usize>", ["'a", "T: 'a + Marker", 'const N: usize'], ["'a", 'T', 'N'], ['T'], ["&'a T", '[u8; N]']),
    ('def', '<T = u8, const N: usize = 2>', ['T', 'const N: usize'], ['T', 'N'], ['T'], ['T', '[T; N]']),
    ('cfirst', "<'a, const N: usize, T, U: Copy>", ["'a", 'const N: usize', 'T', 'U: Copy'], ["'a", 'N', 'T', 'U'], ['T', 'U'], ["&'a [T; N]", 'U']),
    ('ltonly', "<'a, 'b: 'a>", ["'a", "'b: 'a"], ["'a", "'b"], [], ["&'a u8", "&'b u8"]),
    ('defb', '<T: Clone = String, U = T>', ['T: Clone', 'U'], ['T', 'U'], ['T', 'U'], ['T', 'U']),
]
# (id, predicates, spelling): 'plain'; 'comma' = trailing comma after the last predicate; 'empty' = a `where` keyword without predicates
WHERES = [('w0', [], 'plain'), ('w1', ['u8: Copy'], 'plain'), ('w2', ['Vec<u8>: Clone', "for<'x> &'x u16: Sized"], 'plain'),
          ('w1c', ['u8: Copy'], 'comma'), ('w2c', ['Vec<u8>: Clone', "for<'x> &'x u16: Sized"], 'comma'), ('w0e', [], 'empty')]
# bound modes: (id, meta text or None, kind, predicates)
CUSTOM1 = ['u32: Marker3']
CUSTOM2 = ['u32: Marker3', 'Vec<u64>: ::core::fmt::Debug + Send']
MODES = [
    ('absent', None, 'auto', None),
    ('star', 'bound(*)', 'all', None),
    ('c1', 'bound(%s)' % CUSTOM1[0], 'custom', CUSTOM1),
    ('c2', 'bound(%s)' % ', '.join(CUSTOM2), 'custom', CUSTOM2),
    ('c2s', 'bound = "%s"' % ', '.join(CUSTOM2), 'custom', CUSTOM2),
    ('c1s', 'bound("%s")' % CUSTOM1[0], 'custom', CUSTOM1),
    ('off', 'bound = false', 'off', None),
    ('off2', 'bound(false)', 'off', None),
    ('off3', 'bound = ""', 'off', None),
    ('auto2', 'bound = true', 'auto', None),
    # a predicate list laid out like a where-clause: trailing comma, line breaks; a blank string
    ('c2st', 'bound = "%s,"' % ', '.join(CUSTOM2), 'custom', CUSTOM2),
    ('c1st', 'bound("%s ,")' % CUSTOM1[0], 'custom', CUSTOM1),
    ('c2lt', 'bound(%s,)' % ', '.join(CUSTOM2), 'custom', CUSTOM2),
    ('c2sn', 'bound = "\n    %s,\n"' % ',\n    '.join(CUSTOM2), 'custom', CUSTOM2),
    ('off4', 'bound = " "', 'off', None),
    ('off5', 'bound("")', 'off', None),
]
# predicates whose bounded type does not begin with an identifier (qualified path, reference, array, tuple, leading `::`, Self, higher-ranked, lifetime, pointer, fn, dyn, never, slice)
LEADS = [('q', ['<u8 as Assoc>::Out: Copy', 'u32: Marker3']), ('ref', ["&'static u8: Copy"]), ('arr', ['[u8; 2]: Copy', 'u32: Marker3']), ('tup', ['(u8, u16): Copy']),
         ('abs', ['::core::option::Option<u8>: Copy']), ('self', ['Self: Sized']), ('for', ["for<'x> &'x u16: Sized", 'u32: Marker3']), ('lt', ["'static: 'static"]),
         ('ptr', ['*const u8: Copy']), ('fn', ['fn(u8) -> u8: Copy']), ('dyn', ['dyn Send: Send']), ('never', ['!: Sized']), ('slice', ['[u8]: Send']), ('paren', ['(u8): Copy']),
         ('mutptr', ['*mut u8: Copy', 'u32: Marker3']), ('unit', ['(): Copy'])]
for _id, _preds in LEADS:
    MODES.append(('L' + _id, 'bound(%s)' % ', '.join(_preds), 'custom', _preds))
    MODES.append(('L' + _id + 's', 'bound = "%s"' % ', '.join(_preds), 'custom', _preds))
LEAD_IDS = tuple(m[0] for m in MODES if m[0].startswith('L'))
P = K.TRAIT_PATH
# request kinds: (id, trait metas builder, expected impls [(trait path, bound trait or None, supertraits)])


def requests(kind):
    """(id, [type-level metas with {B} placeholder for the bound parameter], [expected impl specs])
    impl spec: (trait path canonical, bound trait canonical (for `*` and auto), [supertrait canonical], follows_mode)"""
    union = kind == 'union'
    R = []

    def add(rid, metas, impls):
        R.append((rid, metas, impls))
    D, C, CP, PE, E, PO, O, H, DF = (P['Debug'], P['Clone'], P['Copy'], P['PartialEq'], P['Eq'], P['PartialOrd'], P['Ord'], P['Hash'], P['Default'])
    if not union:
        add('Debug', ['Debug{B}'], [(D, D, [], True)])
        add('PartialEq', ['PartialEq{B}'], [(PE, PE, [], True)])
        add('PartialEq+Eq', ['PartialEq{B}', 'Eq'], [(PE, PE, [], True), (E, PE, [], True)])
        add('Hash', ['Hash{B}'], [(H, H, [], True)])
        add('PartialOrd', ['PartialOrd{B}'], [(PO, PO, [PE], True)])
        add('Ord', ['Ord{B}'], [(O, O, [E, PO], True)])
        add('PartialOrd+Ord', ['PartialOrd', 'Ord{B}'], [(O, O, [E], True), (PO, O, [E], True)])
    add('Clone', ['Clone{B}'], [(C, CP if union else C, [], True)])
    add('Copy+Clone', ['Copy', 'Clone{B}'], [(C, CP, [], True), (CP, CP, [], True)])
    add('Copy', ['Copy{B}'], [(CP, CP, [C], True)])
    add('Eq', ['Eq{B}'], [(E, PE, [PE], True)])
    add('Default', ['Default{B}'], [(DF, DF, [], True)])
    add('Default+new', ['Default{B+new}'], [(DF, DF, [], True), ('', DF, [], True)])
    # a type-level expression builds the whole value: no field is delegated, so automatic bounds are empty, but an explicit bound mode is honoured all the same
    if kind in ('struct', 'tuple'):     # (on enums and unions the item template marks a default variant / field, which a type-level expression excludes)
        add('Default+texpr', ['Default{B+texpr}'], [(DF, DF, [], True)])
        add('Default+texpr+new', ['Default{B+texpr+new}'], [(DF, DF, [], True), ('', DF, [], True)])
    if not union:
        add('Into', ['Into(u64{,B})'], [(P['Into'] + ' < u64 >', P['Into'] + ' < u64 >', [], True)])
        add('Into2b', ['Into(u64{,B})', 'Into(W{,B})'], [(P['Into'] + ' < u64 >', P['Into'] + ' < u64 >', [], True), (P['Into'] + ' < W >', P['Into'] + ' < W >', [], True)])
        add('Into2', ['Into(u64{,B})', 'Into(W)'], [(P['Into'] + ' < u64 >', P['Into'] + ' < u64 >', [], True), (P['Into'] + ' < W >', P['Into'] + ' < W >', [], 'auto')])
        add('Deref', ['Deref', 'DerefMut'], [(P['Deref'], None, [], False), (P['DerefMut'], None, [], False)])
    return R


def fill(meta, btext):
    if '{B}' in meta:
        return meta.replace('{B}', '(%s)' % btext if btext else '')
    if '{B+new}' in meta:
        return meta.replace('{B+new}', '(%s)' % ', '.join(x for x in ('new', btext) if x))
    if '{B+texpr}' in meta:
        return meta.replace('{B+texpr}', '(%s)' % ', '.join(x for x in ('expression = Ty::make()', btext) if x))
    if '{B+texpr+new}' in meta:
        return meta.replace('{B+texpr+new}', '(%s)' % ', '.join(x for x in (btext, 'new', 'expression = Ty::make()') if x))
    if '{,B}' in meta:
        return meta.replace('{,B}', ', ' + btext if btext else '')
    return meta


HANDLED = {'Debug': ('Debug(ignore)', 'Debug(method(fmt_any))'), 'PartialEq': ('PartialEq(ignore)', 'PartialEq(method(eq_any))'), 'PartialEq+Eq': ('Eq(ignore)', 'PartialEq(method(eq_any))'),
           'Hash': ('Hash(ignore)', 'Hash(method(hash_any))'), 'PartialOrd': ('PartialOrd(method(pcmp_any))', 'PartialOrd(ignore)'), 'Ord': ('Ord(ignore)', 'Ord(method(cmp_any))'),
           'PartialOrd+Ord': ('PartialOrd(ignore)', 'Ord(method(cmp_any))'), 'Clone': ('Clone(method(clone_any))', 'Clone(method(clone_any))'),
           'Copy+Clone': ('Clone(method(clone_any))', 'Clone(method(clone_any))')}


def item_text(kind, ctx, wh, metas, markers, markers1=''):
    """markers: attribute text for the first field of every struct / variant; markers1: for the second field of structs"""
    cid, decl, _, _, _, ftys = ctx
    where = ('where ' + ', '.join(wh[1])) if wh[1] else ''
    if wh[2] == 'comma':
        where += ','
    elif wh[2] == 'empty':
        where = 'where'
    attrs = ''.join('#[educe(%s)]\n' % m for m in metas)
    if kind == 'struct':
        return '#[derive(Educe)]\n%sstruct Ty%s %s {\n    %sf0: %s,\n    %sf1: %s,\n}\n' % (attrs, decl, where, markers, ftys[0], markers1, ftys[1])
    if kind == 'tuple':
        return '#[derive(Educe)]\n%sstruct Ty%s(%s %s, %s %s) %s;\n' % (attrs, decl, markers, ftys[0], markers1, ftys[1], where)
    if kind == 'enum':
        return '#[derive(Educe)]\n%senum Ty%s %s {\n    %sV0(%s %s),\n    V1 { %s%sf0: %s, f1: u8 },\n}\n' % (
            attrs, decl, where, '#[educe(Default)] ' if 'Default' in attrs else '', markers, ftys[0], markers, markers1, ftys[1])
    return '#[derive(Educe)]\n%sunion Ty%s %s {\n    %sf0: %s,\n    f1: %s,\n}\n' % (
        attrs, decl, where, '#[educe(Default)] ' if 'Default' in attrs else '', ftys[0], ftys[1])


def generate(tier):
    for kind in ('struct', 'tuple', 'enum', 'union'):
        for ctx in CONTEXTS:
            if kind == 'union' and ctx[0] in ('ltc', 'cfirst', 'ltonly', 'TU'):
                pass
            for wh in WHERES:
                for rid, metas, impls in requests(kind):
                    for mode in MODES:
                        if rid == 'Deref' and mode[0] != 'absent':
                            continue
                        if tier == 'quick' and mode[0] in ('c1s', 'off2', 'auto2', 'c1st', 'c2lt', 'off5') and wh[0] != 'w0':
                            continue
                        if mode[0] in LEAD_IDS and (wh[0] not in ('w0', 'w1c') or (tier == 'quick' and wh[0] != 'w0') or ctx[0] not in ('none', 'T', 'ltc')):
                            continue
                        ms = [fill(m, mode[1]) for m in metas]
                        markers, markers1 = '', ''
                        if rid == 'Into':
                            markers = '#[educe(Into(u64))] '
                        if rid in ('Into2', 'Into2b'):
                            markers, markers1 = '#[educe(Into(u64))] ', '#[educe(Into(W))] '
                        if rid == 'Deref':
                            markers = '#[educe(Deref, DerefMut)] '
                        yield (kind, ctx, wh, rid, impls, mode, item_text(kind, ctx, wh, ms, markers, markers1))
                        # the same request with every field ignored or handled by a method: explicit bounds must still be honoured,
                        # automatic bounds shrink to the supertraits
                        if rid in HANDLED and kind != 'union' and wh[0] != 'w2' and (rid != 'Copy+Clone' or kind == 'enum'):
                            h0, h1 = HANDLED[rid]
                            yield (kind, ctx, wh, rid + '/handled', impls, mode, item_text(kind, ctx, wh, ms, '#[educe(%s)] ' % h0, ('#[educe(%s)] ' % h1) if kind != 'enum' else ''))


def wf_cases():
    """types whose own where-clause is required for well-formedness (an associated type of a parameter, a ?Sized parameter):
    every impl educe emits — including impls nested inside generated function bodies — has to repeat it, or the expansion does not compile"""
    out = []
    decls = {
        'assoc-struct': ("pub struct Ty<S> where S: Assoc {{ {F0}pub f0: S::Out, {F1}pub f1: u8 }}", 'Ty<u8>'),
        'assoc-tuple': ("pub struct Ty<S>({F0}pub S::Out, {F1}pub u8) where S: Assoc;", 'Ty<u8>'),
        'assoc-enum': ("pub enum Ty<S> where S: Assoc {{ {VD}V0({F0}S::Out, {F1}u8), V1 {{ {F1}f0: u8 }} }}", 'Ty<u8>'),
        'unsized': ("pub struct Ty<'a, L> where L: ?Sized {{ {F0}pub f0: &'a L, {F1}pub f1: u8 }}", "Ty<'static, str>"),
        'unsized-enum': ("pub enum Ty<'a, L> where L: ?Sized {{ {VD}V0({F1}u8), V1 {{ {F0}f0: &'a L, {F1}f1: u8 }} }}", "Ty<'static, [u8]>"),
        # parameters named like the generic parameters the impl bodies introduce themselves: the header must reproduce them, the bodies must stay clear of them
        'const-named-__H': ("pub struct Ty<T, const __H: usize> {{ {F0}pub f0: [T; __H], {F1}pub f1: u8 }}", 'Ty<u8, 2>'),
        'type-named-__H-enum': ("pub enum Ty<__H, const H: usize> {{ {VD}V0({F1}u8), V1 {{ {F0}f0: [__H; H], {F1}f1: u8 }} }}", 'Ty<u8, 2>'),
    }
    sets = {
        'Debug-method': ('Debug', {'F1': 'Debug(method(fmt_any))'}),
        'Debug-method0': ('Debug', {'F0': 'Debug(method(fmt_any))'}),
        'Debug-both': ('Debug(bound = false)', {'F0': 'Debug(method(fmt_any))', 'F1': 'Debug(method(fmt_any))'}),
        'Debug-plain': ('Debug', {}),
        'Clone': ('Clone', {'F1': 'Clone(method(clone_any))'}),
        'PartialEq': ('PartialEq', {'F1': 'PartialEq(method(eq_any))'}),
        'Hash': ('Hash', {'F1': 'Hash(method(hash_any))'}),
        'PartialOrd': ('PartialEq, PartialOrd', {'F1': 'PartialOrd(method(pcmp_any))'}),
        'all': ('Debug, Clone, PartialEq, Hash', {'F1': 'Debug(method(fmt_any)), Clone(method(clone_any)), PartialEq(method(eq_any)), Hash(method(hash_any))'}),
    }
    for dk, (decl, inst) in decls.items():
        for sk, (tl, fm) in sets.items():
            if 'unsized' in dk and sk in ('Clone', 'all') and False:
                continue
            f0 = '#[educe(%s)] ' % fm['F0'] if 'F0' in fm else ''
            f1 = '#[educe(%s)] ' % fm['F1'] if 'F1' in fm else ''
            src = '#[derive(Educe)]\n#[educe(%s)]\n%s\n' % (tl, decl.format(F0=f0, F1=f1, VD=''))
            src += 'pub fn check(_r: &mut Rep) {\n    fn assert_wf<T: ?Sized>() {}\n    assert_wf::<%s>();\n}\n' % inst
            out.append(Case('C12|wf|%s|%s' % (dk, sk), src, {'declaration': dk, 'traits': sk}, expect='accept', run=False, depth=2))
    return out


def check(v, tier, only=None):
    binary = xp.build_xp()
    xp.init_canon(binary)
    global P
    P = K.TRAIT_PATH
    reqs = list(generate(tier))
    if only:
        reqs = [r_ for r_ in reqs if 'C12|%s|%s|%s|%s|%s' % (r_[0], r_[1][0], r_[2][0], r_[3], r_[5][0]) == only]
    # canonical forms of everything the oracle compares against, produced by the same tokeniser
    texts = set()
    for c in CONTEXTS:
        texts.update(c[2])
        texts.update(c[5])
        texts.add('Ty < %s >' % ', '.join(c[3]) if c[3] else 'Ty')
        texts.update(c[4])
    for w in WHERES:
        texts.update(w[1])
    texts.update(CUSTOM2)
    for m in MODES:
        texts.update(m[3] or [])
    texts.update(['u8', 'u16', 'Self'])
    tl = sorted(texts)
    canon = dict(zip(tl, xp.retokenise(binary, tl)))
    res = xp.expand_all(binary, [r[-1] for r in reqs])
    from .. import realmacro
    if not only:
        realmacro.conformance(v, binary, [r[-1] for r in reqs], res, limit=None if tier != 'quick' else 6000)
    nontriv = 0
    for (kind, ctx, wh, rid, impls, mode, src), r in zip(reqs, res):
        key = 'C12|%s|%s|%s|%s|%s' % (kind, ctx[0], wh[0], rid, mode[0])
        case = Case(key, src, {'kind': kind, 'generics': ctx[1], 'where': wh[1], 'request': rid, 'bound': mode[1]}, run=False,
                    depth=(ctx[0] != 'none') + (wh[0] != 'w0') + (mode[0] != 'absent'))
        v.cov['states'] += 1
        v.cov['transitions'] += max(1, case.depth)
        if r['st'] != 'ok':
            v.violation(case, 'documented bound form refused: %s %s' % (r['st'], r.get('msg', '')[:200]))
            continue
        v.cov['traces_validated_against_impl'] += 1
        items = r.get('items')
        if items is None:
            v.violation(case, 'expansion is not a sequence of impl items: %s' % r.get('split_error'))
            continue
        want_gen = [canon[g] for g in ctx[2]]
        want_self = canon['Ty < %s >' % ', '.join(ctx[3]) if ctx[3] else 'Ty']
        user = [canon[p] for p in wh[1]]
        problems = []
        if sorted(i['tr'] for i in items) != sorted(s[0] for s in impls):
            problems.append('expected impls of %s, found %s' % (sorted(s[0] for s in impls), sorted(i['tr'] for i in items)))
        for spec in impls:
            tr, btrait, supers, follows = spec
            if rid == 'Copy+Clone/handled' and tr == P['Clone']:
                btrait = P['Clone']          # with a custom clone method the enum's Clone is field by field: the bound trait is Clone
            for it in [i for i in items if i['tr'] == tr]:
                v.cov['evaluations'] += 1
                if it['gen'] != want_gen:
                    problems.append('impl %s: generic parameters %s, expected %s' % (tr or 'inherent', it['gen'], want_gen))
                if it['self'] != want_self:
                    problems.append('impl %s: self type %s, expected %s' % (tr or 'inherent', it['self'], want_self))
                if it['wh'][:len(user)] != user:
                    problems.append('impl %s: where-clause %s does not start with the type\'s own predicates %s' % (tr or 'inherent', it['wh'], user))
                    continue
                added = it['wh'][len(user):]
                mk = mode[2] if follows is True else ('auto' if follows == 'auto' else 'none')
                if follows is False:
                    mk = 'none'
                if mk == 'off' or mk == 'none':
                    if added:
                        problems.append('impl %s: predicates %s added although %s' % (tr or 'inherent', added, 'bounds are disabled' if mk == 'off' else 'the trait takes no bounds'))
                elif mk == 'custom':
                    if sorted(added) != sorted(canon[p] for p in mode[3]):
                        problems.append('impl %s: added predicates %s, expected exactly the given %s' % (tr or 'inherent', added, [canon[p] for p in mode[3]]))
                elif mk == 'all':
                    want = sorted('%s : %s' % (canon[t], btrait) for t in ctx[4])
                    if sorted(added) != want:
                        problems.append('impl %s: bound(*) added %s, expected %s' % (tr or 'inherent', added, want))
                else:   # automatic mode: field types that are delegated (all of them here) plus the supertraits on Self
                    ftys = ctx[5] if kind != 'enum' else [ctx[5][0], ctx[5][1], 'u8']
                    if rid.endswith('/handled'):
                        ftys = ['u8'] if kind == 'enum' else []
                        if rid == 'Copy+Clone/handled' and tr == P['Copy']:
                            ftys = [ctx[5][0], ctx[5][1], 'u8']
                    if rid in ('Into', 'Into2', 'Into2b'):
                        # struct: the marked field; enum: V0's sole field and V1's marked field
                        first = tr.endswith('< u64 >')
                        if kind in ('struct', 'tuple'):
                            ftys = [ctx[5][0]] if first else [ctx[5][1]]
                        else:
                            ftys = [ctx[5][0], ctx[5][1]]
                    if rid.startswith('Default') and kind in ('enum', 'union'):
                        ftys = [ctx[5][0]]
                    if rid.startswith('Default+texpr'):
                        ftys = []
                    want = set('%s : %s' % (canon[t], btrait) for t in ftys) | set('Self : %s' % s for s in supers)
                    if set(added) != want:
                        problems.append('impl %s: automatic bounds %s, expected %s' % (tr or 'inherent', sorted(set(added)), sorted(want)))
        if len(items) >= 1 and (ctx[0] != 'none' or wh[1]):
            nontriv += 1
        if problems:
            v.violation(case, ' ;; '.join(problems[:3]))
    if not only or only.startswith('C12|wf|'):
        from ..core import rt_run
        wf = [c for c in wf_cases() if not only or c.key == only]
        for r_ in rt_run(wf, run=False, name='C12wf'):
            v.cov['states'] += 1
            v.cov['transitions'] += 2
            v.cov['evaluations'] += 1
            if r_.status != 'ok':
                v.violation(r_.case, 'a type whose where-clause is needed for well-formedness: the expansion does not compile (an emitted impl does not repeat the where-clause?): %s' % '; '.join(
                    (d['code'] or '') + ' ' + d['msg'][:160] for d in r_.errors()[:2]))
            else:
                v.cov['traces_validated_against_impl'] += 1
    v.cov['distinct_nontrivial'] = nontriv
    for rq in reqs[::max(1, len(reqs) // 6)][:6] if reqs else []:
        v.sample({'kind': rq[0], 'generics': rq[1][1], 'where': rq[2][1], 'request': rq[3], 'bound': rq[5][1], 'input': rq[6]})
    guard(only or len(reqs) > 2000, 'too few C12 states')
    return v.finish('shape {named struct, tuple struct, enum, union} x generics context {none, <T>, <T,U>, lifetime + inline bounds + const, defaults, const parameter '
                    'before type parameters, lifetimes only, bounded defaults} x user where-clause {none, one, two predicates incl. a higher-ranked one} x request '
                    '{every trait, coupled pairs, stand-alone companions, Default with new, Into with one/two targets, Deref + DerefMut} x bound spelling {absent, '
                    'bound(*), list of one/two predicates, string forms, false / (false) / "", true}; oracle (by parsing every emitted impl): parameter list == the '
                    'type\'s with defaults removed, self type == Ty<args>, where-clause == the user\'s predicates verbatim and in order followed by: nothing '
                    '(disabled), exactly the given predicates (custom), `P: Trait` for every type parameter and only those (*), field types + supertraits '
                    '(automatic); non-trivial = generic or where-claused type',
                    {'bounds': {'tier': tier, 'contexts': len(CONTEXTS), 'modes': len(MODES)}})
