"""C10 — Into returns the designated field for every requested target type, and for no other."""
import itertools

from .. import shapes as S
from ..core import Case

TYN = {'a': 'u8', 'b': 'u16', 'c': 'u32', 'w': 'W', 's': "&'static str"}
STD_INTO = {('a', 'a'), ('a', 'b'), ('a', 'c'), ('a', 'w'), ('b', 'b'), ('b', 'c'), ('b', 'w'), ('c', 'c'), ('c', 'w'),
            ('w', 'w'), ('s', 's')}


def lit(code, n):
    return {'a': '%du8' % n, 'b': '%du16' % n, 'c': '%du32' % n, 'w': 'W(%d)' % n, 's': '"%d"' % n}[code]


def designate(ftypes, marks, target):
    """ftypes: codes per field; marks: {(fi, target): method?}.  Returns (fi, method?) or None if the request is
    refused by the documented rules, or 'illtyped' if the user's side does not type-check."""
    marked = [fi for fi in range(len(ftypes)) if (fi, target) in marks]
    if len(marked) > 1:
        return None
    if len(ftypes) == 1:
        fi = 0
    elif marked:
        fi = marked[0]
    else:
        same = [fi for fi, t in enumerate(ftypes) if t == target]
        if len(same) != 1:
            return None
        fi = same[0]
    method = marks.get((fi, target), False)
    if not method and (ftypes[fi], target) not in STD_INTO:
        return 'illtyped'
    return (fi, method)


def build(shape, ftypes, targets, marks, salt=0, ctx='alone', sspell=(0, 0)):
    """ftypes[vi] = string of type codes; targets: tuple of codes; marks[vi] = {(fi, target): method_bool}"""
    plans = {}
    for t in targets:
        for vi, f in enumerate(shape.variants):
            d = designate(ftypes[vi], marks[vi], t)
            if d is None or d == 'illtyped':
                return None
            plans[(t, vi)] = d
    tys, fattrs = [], []
    for vi, f in enumerate(shape.variants):
        t, a = [], []
        for fi in range(f.n):
            t.append(TYN[ftypes[vi][fi]])
            ms = []
            TYNF = dict(TYN, s=['&\'static str', '&str'][sspell[1]])
            for (k, tg), meth in sorted(marks[vi].items()):
                if k == fi:
                    if meth:
                        ms.append('Into(%s, method(conv_m))' % TYNF[tg] if (salt + fi) % 2 else 'Into(%s, method = "conv_m")' % TYNF[tg])
                    else:
                        ms.append('Into(%s)' % TYNF[tg])
            if ctx != 'alone':
                # another trait's parameter in the same list / in a separate attribute / foreign attributes around the markers
                from .common import FOREIGN
                other = 'Debug(ignore)'
                own = ', '.join(ms)
                a.append({'list_before': ['#[educe(%s)]' % ', '.join([other] + ms)], 'list_after': ['#[educe(%s)]' % ', '.join(ms + [other])],
                          'list_between': ['#[educe(%s)]' % ', '.join(ms[:1] + [other] + ms[1:])],
                          'sep_before': ['#[educe(%s)]' % other] + ['#[educe(%s)]' % m for m in ms], 'sep_after': ['#[educe(%s)]' % m for m in ms] + ['#[educe(%s)]' % other],
                          'foreign_before': FOREIGN + ['#[educe(%s)]' % m for m in ms] + ['#[educe(%s)]' % other],
                          'foreign_after': ['#[educe(%s)]' % other] + ['#[educe(%s)]' % m for m in ms] + FOREIGN,
                          'foreign_between': ['#[educe(%s)]' % other] + FOREIGN[:2] + ['#[educe(%s)]' % m for m in ms] + FOREIGN[2:]}[ctx])
                continue
            if not ms:
                a.append([])
            elif (salt + vi + fi) % 2:
                a.append(['#[educe(%s)]' % ', '.join(ms)])
            else:
                a.append(['#[educe(%s)]' % m for m in ms])
        tys.append(t)
        fattrs.append(a)
    tl = ['Into(%s)' % dict(TYN, s=['&\'static str', '&str'][sspell[0]])[t] for t in targets]
    if ctx != 'alone':
        tl = (['Debug'] + tl) if ctx.endswith('before') else (tl + ['Debug'])
    if salt % 3 == 0:
        tattrs = ['#[educe(%s)]' % ', '.join(tl)]
    elif salt % 3 == 1:
        tattrs = ['#[educe(%s)]' % x for x in tl]
    else:
        tattrs = ['#[educe(%s)]' % ', '.join(reversed(tl))]
    src = S.render_type(shape, tattrs, tys, fattrs, derives='Educe')
    body = ''
    for vi, f in enumerate(shape.variants):
        vals = [10 * vi + fi + 1 for fi in range(f.n)]
        ex = [lit(ftypes[vi][fi], vals[fi]) for fi in range(f.n)]
        for t in targets:
            fi, meth = plans[(t, vi)]
            want = vals[fi] + (100 if meth else 0)
            body += '    {\n        let x = %s;\n        let y: %s = x.into();\n' % (S.ctor(shape, vi, ex), TYN[t])
            body += '        r.ck(y.to_n() == %d, %d, &|| format!("variant %d into %s gave {:?}, the designated field %d%s gives %d", y));\n' % (
                want, 1 if meth else 0, vi, TYN[t].replace("'", ''), fi, ' through the method' if meth else '', want)
            body += '    }\n'
    for t in 'abcw':
        if t not in targets:
            body += '    r.ck(!probe!(Ty: Into<%s>), 5, &|| "Into<%s> is implemented although it was not requested".to_string());\n' % (TYN[t], TYN[t])
    src += 'pub fn check(r: &mut Rep) {\n%s}\n' % body
    mk = ';'.join(','.join('%d%s%s' % (fi, tg, 'm' if meth else '') for (fi, tg), meth in sorted(m.items())) for m in marks)
    key = 'C10|%s|%s|%s|%s' % (shape.code(), ','.join(ftypes), ''.join(targets), mk)
    if ctx != 'alone':
        key += '|' + ctx
    if sspell != (0, 0):
        key += '|str%d%d' % sspell
    depth = len(targets) - 1 + sum(len(m) + sum(1 for x in m.values() if x) for m in marks)
    return Case(key, src, {'shape': shape.code(), 'field_types': list(ftypes), 'targets': list(targets), 'markers': mk},
                expect='accept', run=True, depth=depth)


def zoo(tier):
    """targets and bystanders of different syntactic kinds: `Into(Z)` must find the unique field declared as Z (or the marked one), a field of type Z next to
    the designated field must not disturb the lookup"""
    from .common import ZOO, ZOO_PRE
    out = []
    for zid, zty, zvals in ZOO:
        if zid in ('array0', 'unit', 'phantom'):
            zv = zvals[0]
        else:
            zv = zvals[1]
        for kind in ('sn', 'st', 'en'):
            for mode in ('bytype', 'marked', 'bystander', 'sole'):
                if mode == 'bytype' and zty in ('u8', 'u16'):
                    continue
                tgt = 'u16' if mode == 'bystander' else zty
                mz = '#[educe(Into(%s))] ' % zty if mode == 'marked' else ''
                mb = ''
                if mode == 'marked':
                    fields = [('a', zty, zvals[0]), ('z', zty, zv), ('b', 'u16', '7u16')]     # two fields of the target's type: the marker decides
                elif mode == 'sole':
                    fields = [('z', zty, zv)]
                else:
                    fields = [('a', 'u8', '3u8'), ('z', zty, zv), ('b', 'u16', '7u16')]
                want = '7u16' if mode == 'bystander' else zv
                if kind == 'sn':
                    decl = 'pub struct Ty { %s }' % ', '.join('%spub %s: %s' % (mz if n == 'z' else '', n, t) for n, t, _ in fields)
                    val = 'Ty { %s }' % ', '.join('%s: %s' % (n, v) for n, _, v in fields)
                    vals = [val]
                elif kind == 'st':
                    decl = 'pub struct Ty(%s);' % ', '.join('%spub %s' % (mz if n == 'z' else '', t) for n, t, _ in fields)
                    vals = ['Ty(%s)' % ', '.join(v for _, _, v in fields)]
                else:
                    decl = 'pub enum Ty { A(%s), B { %s } }' % (', '.join('%s%s' % (mz if n == 'z' else '', t) for n, t, _ in fields),
                                                             ', '.join('%s%s: %s' % (mz if n == 'z' else '', n, t) for n, t, _ in reversed(fields)))
                    vals = ['Ty::A(%s)' % ', '.join(v for _, _, v in fields), 'Ty::B { %s }' % ', '.join('%s: %s' % (n, v) for n, _, v in fields)]
                src = ZOO_PRE + '#[derive(Educe)]\n#[educe(Into(%s))]\n%s\n' % (tgt, decl)
                body = ''
                for k, v in enumerate(vals):
                    body += '    {\n        let x = %s;\n        let y: %s = x.into();\n        let want: %s = %s;\n' % (v, tgt, tgt, want)
                    body += '        r.ck(y == want, %d, &|| "into() does not return the designated field".to_string());\n    }\n' % k
                src += 'pub fn check(r: &mut Rep) {\n%s}\n' % body
                out.append(Case('C10|zoo|%s|%s|%s' % (zid, kind, mode), src, {'target': tgt, 'field_type': zty, 'mode': mode}, expect='accept', run=True, depth=1))
    return out


def mark_sets(n, targets, maxmarks):
    singles = [((fi, t), m) for fi in range(n) for t in targets for m in (False, True)]
    yield {}
    for k in range(1, maxmarks + 1):
        for combo in itertools.combinations(singles, k):
            keys = [c[0] for c in combo]
            if len(set(keys)) < len(keys):
                continue
            yield dict(combo)


def generate(tier):
    cases = []
    tsets = [('a',), ('b',), ('w',), ('a', 'b'), ('b', 'w'), ('a', 'b', 'w')]
    if tier != 'quick':
        tsets += [('c',), ('a', 'c'), ('s',), ('a', 's'), ('c', 'w', 'a')]
    alph = 'abw' if tier == 'quick' else 'abws'
    salt = 0
    for n in (1, 2, 3):
        for style in 'tn':
            fl = S.Fields(style, n)
            for kind in ('struct', 'enum'):
                sh = S.Shape(kind, [fl])
                for ft in itertools.product(alph, repeat=n):
                    ft = ''.join(ft)
                    if n == 3 and tier == 'quick' and kind == 'enum':
                        continue
                    for ts in tsets:
                        maxm = 2 if (n < 3 or tier != 'quick') else 1
                        for marks in mark_sets(n, ts, maxm):
                            salt += 1
                            c = build(sh, [ft], ts, [marks], salt)
                            if c:
                                cases.append(c)
    # wide: 4-5 fields (types cycle through the alphabet), at most one marker; 4 variants
    for n in (4, 5):
        for style in 'tn':
            fl = S.Fields(style, n)
            for rot in range(3):
                ft = ''.join('abw'[(i + rot) % 3] for i in range(n))
                for ts in (('c',), ('a', 'c'), ('w', 'c')) if tier != 'quick' else (('c',), ('w', 'c')):
                    for marks in mark_sets(n, ts, 1 if len(ts) == 1 else 2):
                        salt += 1
                        for sh in (S.Shape('struct', [fl]), S.Shape('enum', [S.Fields('t', 1), S.Fields('n', 1), fl, S.Fields('t', 1)])):
                            if sh.kind == 'struct':
                                c = build(sh, [ft], ts, [marks], salt)
                            else:
                                c = build(sh, ['a', 'b', ft, 'w'], ts, [{}, {}, marks, {}], salt)
                            if c:
                                cases.append(c)
    # very wide: 12 fields, the marker (with and without method) at positions 0, 1, 9, 10, 11
    for style in 'tn':
        fl = S.Fields(style, 12)
        ft = ''.join('abw'[i % 3] for i in range(12))
        for pos_ in (0, 1, 9, 10, 11):
            for meth in (False, True):
                salt += 1
                for sh in (S.Shape('struct', [fl]), S.Shape('enum', [S.Fields('t', 1), fl])):
                    c = build(sh, [ft] if sh.kind == 'struct' else ['c', ft], ('c',), [{(pos_, 'c'): meth}] if sh.kind == 'struct' else [{}, {(pos_, 'c'): meth}], salt)
                    if c:
                        cases.append(c)
    # two variants, independent designations (at most one marker per variant)
    small = [S.Fields('t', 1), S.Fields('n', 2), S.Fields('t', 2)]
    for combo in itertools.product(small, repeat=2):
        sh = S.Shape('enum', list(combo))
        for ts in (('a',), ('b', 'w'), ('a', 'b')):
            fts = [[''.join(p) for p in itertools.product('ab' if tier == 'quick' else 'abw', repeat=f.n)] for f in combo]
            for ft in itertools.product(*fts):
                for m0 in mark_sets(combo[0].n, ts, 1):
                    for m1 in mark_sets(combo[1].n, ts, 1):
                        salt += 1
                        c = build(sh, list(ft), ts, [m0, m1], salt)
                        if c:
                            cases.append(c)
    # attribute contexts: another trait's parameter next to the markers (same list before / between / after, separate attributes, foreign attributes)
    ctxs = ['list_before', 'list_after', 'list_between', 'sep_before', 'sep_after', 'foreign_before', 'foreign_after', 'foreign_between']
    for style in 'tn':
        for n in (2, 3):
            fl = S.Fields(style, n)
            for ft in (['ab', 'aa', 'ba'] if n == 2 else ['aab', 'aba', 'baa', 'bab']):
                for ts in (('a',), ('b',), ('a', 'b'), ('w', 'a')):
                    for marks in mark_sets(n, ts, 2):
                        if not marks:
                            continue
                        for ctx in ctxs:
                            salt += 1
                            for sh in (S.Shape('struct', [fl]), S.Shape('enum', [S.Fields('t', 1), fl])):
                                if tier == 'quick' and (salt + (sh.kind == 'enum')) % 3:
                                    continue
                                c = build(sh, [ft] if sh.kind == 'struct' else ['a' if 'w' not in ts else 'b', ft], ts,
                                          [marks] if sh.kind == 'struct' else [{}, marks], salt, ctx=ctx)
                                if c:
                                    cases.append(c)
    # reference targets in both spellings (`&'static str`, `&str`) at the type level and on the field
    for style in 'tn':
        for n in (1, 2, 3):
            fl = S.Fields(style, n)
            for ft in {1: ['s'], 2: ['sa', 'as', 'ss'], 3: ['asb', 'ssa']}[n]:
                for ts in (('s',), ('a', 's'), ('s', 'b')):
                    for marks in mark_sets(n, ts, 1):
                        for sspell in ((0, 0), (1, 0), (0, 1), (1, 1)):
                            salt += 1
                            for sh in (S.Shape('struct', [fl]), S.Shape('enum', [fl, S.Fields('n', 1)])):
                                c = build(sh, [ft] if sh.kind == 'struct' else [ft, 's' if 'b' not in ts and 'a' not in ts else 'a'], ts,
                                          [marks] if sh.kind == 'struct' else [marks, {}], salt, sspell=sspell)
                                if c:
                                    cases.append(c)
    # nested reference targets: every spelling of the lifetimes (written or elided at either level) at the type level x on the field marker (or no marker: the field is found by its type)
    nspell = ["&'static &'static str", '&&str', "&'static &str", "&&'static str"]
    for ti, tsp in enumerate(nspell):
        for mi, msp in enumerate(nspell + [None]):
            m = ('#[educe(Into(%s))] ' % msp) if msp else ''
            for kind, decl, mk in (('sn', "pub struct Ty { %spub a: &'static &'static str, pub b: u8 }", 'Ty { a: &NS0, b: 1 }'),
                                   ('st', "pub struct Ty(pub u8, %spub &'static &'static str, pub &'static str);", 'Ty(1, &NS0, "q")'),
                                   ('en', "pub enum Ty { A(%spub_less &'static &'static str, u8), B { %sy: &'static &'static str } }", 'Ty::A(&NS0, 1)')):
                d = decl.replace('pub_less ', '')
                d = d % ((m,) * d.count('%s'))
                src = 'static NS0: &str = "p";\n#[derive(Educe)]\n#[educe(Into(%s))]\n%s\n' % (tsp, d)
                src += ('pub fn check(r: &mut Rep) {\n    let v = %s;\n    let x: &\'static &\'static str = v.into();\n'
                        '    r.ck(**x == *"p", 0, &|| format!("into() returns {:?}, the designated field holds \\"p\\"", x));\n' % mk)
                if kind == 'en':
                    src += '    let w = Ty::B { y: &NS0 };\n    let y: &\'static &\'static str = w.into();\n    r.ck(**y == *"p", 1, &|| format!("into() of the second variant returns {:?}", y));\n'
                src += '}\n'
                cases.append(Case('C10|nested-ref|%d|%s|%s' % (ti, 'none' if msp is None else mi, kind), src, {'type-level target': tsp, 'field marker': msp, 'shape': kind}, expect='accept', run=True, depth=2))
    cases += zoo(tier)
    # conversions: a field type whose inherent `into` answers differently from its Into impl; generic fields that are convertible for one target only
    for kind, decl, mk in (('sn', 'pub struct Ty { {M}pub a: Inh, pub b: bool }', 'Ty { a: inh(%d), b: true }'), ('st', 'pub struct Ty({M}pub Inh, pub bool);', 'Ty(inh(%d), true)'),
                           ('en', 'pub enum Ty { A({M}Inh, bool), B { x: bool, {M}y: Inh }, C(Inh) }', None)):
        for marked in (False, True):
            for tgts in (('u8',), ('u16', 'u8')):
                m = '#[educe(%s)] ' % ', '.join('Into(%s)' % t for t in tgts) if marked else ''
                if not marked and kind != 'en':
                    m = '#[educe(%s)] ' % ', '.join('Into(%s)' % t for t in tgts)     # several fields: a designation is required
                src = '#[derive(Educe)]\n#[educe(%s)]\n%s\n' % (', '.join('Into(%s)' % t for t in tgts), decl.replace('{M}', m if (marked or kind != 'en') else '#[educe(%s)] ' % ', '.join('Into(%s)' % t for t in tgts)))
                vals = [mk % 5] if mk else ['Ty::A(inh(5), true)', 'Ty::B { x: false, y: inh(5) }', 'Ty::C(inh(5))']
                body = ''
                for v_ in vals:
                    for t in tgts:
                        body += '    { let y: %s = (%s).into(); r.ck(y == 5, 0, &|| format!("into::<%s>() gave {}, the Into impl of the field gives 5", y)); }\n' % (t, v_, t)
                src += 'pub fn check(r: &mut Rep) {\n%s}\n' % body
                cases.append(Case('C10|inherent-into|%s|%s|%s' % (kind, 'marked' if marked else 'plain', '+'.join(tgts)), src, {'field_type': 'Inh (inherent into() = 200)'}, expect='accept', run=True, depth=2))
    for kind, decl, mk in (('sn', 'pub struct Ty<T, U> { #[educe(Into(u8))] pub a: T, #[educe(Into(u16))] pub b: U }', 'Ty { a: %s, b: %s }'),
                           ('st', 'pub struct Ty<T, U>(#[educe(Into(u8))] pub T, #[educe(Into(u16))] pub U);', 'Ty(%s, %s)'),
                           ('en', 'pub enum Ty<T, U> { A(#[educe(Into(u8))] T, #[educe(Into(u16))] U), B { #[educe(Into(u16))] x: U, #[educe(Into(u8))] y: T } }', 'Ty::A(%s, %s)')):
        for order in (('u8', 'u16'), ('u16', 'u8'), ('u8', 'u16', 'wf'), ('u16', 'u8', 'wf')):
            if order[-1] == 'wf':       # the item has a where clause of its own that every impl has to repeat
                order = order[:2]
                wf = ' where T: Wf, U: Wf' + ('' if kind == 'st' else ' ')
                decl_ = (decl.replace(' {', wf + '{', 1) if kind != 'st' else decl.replace(';', wf + ';'))
                src = 'pub trait Wf {}\nimpl Wf for Inh {}\nimpl Wf for No {}\n'
                kind_ = kind + '-where'
            else:
                src, decl_, kind_ = '', decl, kind
            src += '#[derive(Educe)]\n#[educe(%s)]\n%s\n' % (', '.join('Into(%s)' % t for t in order), decl_)
            src += ('pub fn check(r: &mut Rep) {\n'
                    '    r.ck(probe!(Ty<Inh, No>: Into<u8>), 0, &|| "Into<u8> needs only the field designated for u8 to be convertible".to_string());\n'
                    '    r.ck(probe!(Ty<No, Inh>: Into<u16>), 1, &|| "Into<u16> needs only the field designated for u16 to be convertible".to_string());\n'
                    '    r.ck(!probe!(Ty<Inh, No>: Into<u16>), 2, &|| "Into<u16> applies although its field is not convertible".to_string());\n'
                    '    r.ck(!probe!(Ty<No, Inh>: Into<u8>), 3, &|| "Into<u8> applies although its field is not convertible".to_string());\n'
                    '    { let y: u8 = (%s).into(); r.ck(y == 5, 4, &|| format!("into::<u8>() gave {}", y)); }\n'
                    '    { let y: u16 = (%s).into(); r.ck(y == 6, 5, &|| format!("into::<u16>() gave {}", y)); }\n}\n') % (mk % ('inh(5)', 'No'), mk % ('No', 'inh(6)'))
            cases.append(Case('C10|generic-per-target|%s|%s' % (kind_, '+'.join(order)), src, {'generics': 'T for u8, U for u16'}, expect='accept', run=True, depth=2))
    # field names that differ by the prefixes the templates use for their bindings (x, _x, __x, ...), and raw identifiers
    from .common import underscorify, rawify
    named = [x for x in cases if ':n' in x.key or '|n' in x.key]
    for c in named[::4]:
        from .common import localsify
        for tr in (underscorify, rawify, lambda c_: localsify(c_, 0), lambda c_: localsify(c_, 1), lambda c_: localsify(c_, 2)):
            r_ = tr(c)
            if r_:
                cases.append(r_)
    from .common import decoy_layer
    cases += decoy_layer([c for c in cases if c is not None])
    seen, out = set(), []
    for c in cases:
        if c.key not in seen:
            seen.add(c.key)
            out.append(c)
    return out


RULE = ('wide (4-5 fields, 4 variants) and very wide (12 fields, marker at 0, 1, 9, 10, 11) elements with at most one marker; structs and enum variants with 1..3 fields over field types {u8, u16, W (user type)} (thorough: + u32, &\'static str) '
        'x target sets x every placement of field-level Into(T) / Into(T, method) markers up to the marker bound that the '
        'documented designation rules accept (explicit marker, else sole field, else unique field of type T) and whose '
        'conversions type-check; two-variant enums with independent designations; oracle: x.into() equals the designated '
        'field (distinct sentinel per field; the method adds 100), and compile-time probes show Into<X> is absent for every '
        'unrequested X; requests with no marker and 0 or 2..5 fields of the target type (no unique candidate) must be refused; non-trivial = at least two distinct kinds of evaluation')


def reject_cases():
    """no marker and no unique field of the target type: the designation rule gives no field, the request must be refused"""
    out = []
    for n_same in (2, 3, 4, 5):
        for extra in (0, 1):
            tys = ['u8'] * n_same + ['u16'] * extra
            for rot in range(len(tys) if extra else 1):
                t2 = tys[rot:] + tys[:rot]
                for kind in ('struct', 'tuple', 'enum-t', 'enum-n'):
                    if kind == 'struct':
                        item = 'pub struct Ty { %s }' % ', '.join('f%d: %s' % (i, t) for i, t in enumerate(t2))
                    elif kind == 'tuple':
                        item = 'pub struct Ty(%s);' % ', '.join(t2)
                    elif kind == 'enum-t':
                        item = 'pub enum Ty { A(u8), B(%s) }' % ', '.join(t2)
                    else:
                        item = 'pub enum Ty { A { x: u8 }, B { %s } }' % ', '.join('f%d: %s' % (i, t) for i, t in enumerate(t2))
                    out.append(Case('C10|reject|%s|%dsame+%d|r%d' % (kind, n_same, extra, rot), '#[derive(Educe)]\n#[educe(Into(u8))]\n%s\n' % item,
                                    {'kind': kind, 'same_typed_candidates': n_same}, expect='reject', run=False, depth=1))
    # no candidate at all
    for kind, item in (('struct', 'pub struct Ty { a: u16, b: u32 }'), ('enum', 'pub enum Ty { A(u8), B(u16, u32) }')):
        out.append(Case('C10|reject|%s|0same' % kind, '#[derive(Educe)]\n#[educe(Into(u8))]\n%s\n' % item, {'kind': kind, 'same_typed_candidates': 0}, expect='reject', run=False, depth=1))
    return out


def check(v, tier):
    from .common import run_behavioural
    cases = generate(tier)
    run_behavioural(v, cases, 'C10', nontrivial_min=2, min_nontrivial_ratio=0.8)
    from .common import run_rejects
    run_rejects(v, reject_cases(), 'C10')
    return v.finish(RULE, {'bounds': {'fields': 3, 'variants': 2, 'markers': 2, 'tier': tier}})
