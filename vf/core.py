"""Shared machinery: paths, building educe from the working tree, engine RT
(render -> shard -> parallel rustc -> JSON diagnostics -> fixpoint -> run),
evidence, known findings, replay artefacts.  Python standard library only."""
import concurrent.futures as cf
import fcntl
import hashlib
import json
import os
import re
import resource
import shutil
import subprocess
import sys
import time

VERIF = os.path.dirname(os.path.dirname(os.path.abspath(__file__)))
EDUCE_REPO = os.path.abspath(os.environ.get('EDUCE_REPO', '/repo'))
BUILD = os.environ.get('VERIF_BUILD', os.path.join(VERIF, 'build'))
SUPPORT_RS = os.path.join(VERIF, 'support', 'support.rs')
JOBS = int(os.environ.get('VERIF_JOBS', str(os.cpu_count() or 8)))
GUARD = 'magiclen_educe_verif'

ENV = dict(os.environ)
ENV['CARGO_NET_OFFLINE'] = 'true'
ENV.pop('RUSTFLAGS', None)
ENV.pop('RUSTC_WRAPPER', None)


class MachineryError(Exception):
    """Something other than educe went wrong (exit code 2, never a verdict)."""


def shash(x):
    """stable hash for deterministic enumeration choices (Python's hash() is salted per process)"""
    import zlib
    return zlib.crc32(repr(x).encode())


def log(*a):
    print(*a, file=sys.stderr, flush=True)


def repo_tag():
    return hashlib.sha1(EDUCE_REPO.encode()).hexdigest()[:10]


def _limits(mem_gb):
    def f():
        lim = int(mem_gb * (1 << 30))
        resource.setrlimit(resource.RLIMIT_AS, (lim, lim))
        resource.setrlimit(resource.RLIMIT_CORE, (0, 0))
    return f


def run_proc(cmd, timeout=600, mem_gb=12, env=None, cwd=None, stdin=None):
    """Run a subprocess under a wall-clock cap and RLIMIT_AS.  Returns (rc, out, err); rc=-9 on timeout."""
    try:
        p = subprocess.run(cmd, stdout=subprocess.PIPE, stderr=subprocess.PIPE, timeout=timeout,
                           env=env or ENV, cwd=cwd, preexec_fn=_limits(mem_gb), input=stdin)
        return p.returncode, p.stdout.decode('utf-8', 'replace'), p.stderr.decode('utf-8', 'replace')
    except subprocess.TimeoutExpired as e:
        return -9, (e.stdout or b'').decode('utf-8', 'replace'), 'TIMEOUT'


class Lock:
    def __init__(self, name):
        os.makedirs(BUILD, exist_ok=True)
        self.path = os.path.join(BUILD, name + '.lock')

    def __enter__(self):
        self.f = open(self.path, 'w')
        fcntl.flock(self.f, fcntl.LOCK_EX)

    def __exit__(self, *a):
        fcntl.flock(self.f, fcntl.LOCK_UN)
        self.f.close()


def ensure_lockfile():
    lock = os.path.join(EDUCE_REPO, 'Cargo.lock')
    if not os.path.exists(lock):
        shutil.copy(os.path.join(VERIF, 'support', 'Cargo.lock.educe'), lock)


_macro_cache = {}


def build_macro():
    """Build the real proc-macro from $EDUCE_REPO's working tree (default features, hooks off).
    Returns (path to libeduce.so, deps dir)."""
    if 'so' in _macro_cache:
        return _macro_cache['so']
    ensure_lockfile()
    tdir = os.path.join(BUILD, 'rt-target-' + repo_tag())
    with Lock('cargo-rt-' + repo_tag()):
        rc, out, err = run_proc(['cargo', 'build', '--offline', '--message-format=json', '--manifest-path',
                                 os.path.join(EDUCE_REPO, 'Cargo.toml'), '--target-dir', tdir], timeout=900, mem_gb=32)
    if rc != 0:
        msgs = []
        for l in out.splitlines():
            try:
                j = json.loads(l)
            except Exception:
                continue
            if j.get('reason') == 'compiler-message' and j['message'].get('level') == 'error':
                msgs.append(j['message'].get('rendered') or j['message']['message'])
        raise MachineryError('educe does not build from %s:\n%s\n%s' % (EDUCE_REPO, '\n'.join(msgs[:5]), err[-2000:]))
    so = None
    for l in out.splitlines():
        try:
            j = json.loads(l)
        except Exception:
            continue
        if j.get('reason') == 'compiler-artifact' and j.get('target', {}).get('name') == 'educe':
            for f in j.get('filenames', []):
                if f.endswith('.so'):
                    so = f
    if not so or not os.path.exists(so):
        raise MachineryError('could not locate libeduce.so in cargo output')
    _macro_cache['so'] = (so, os.path.join(tdir, 'debug', 'deps'))
    return _macro_cache['so']


# ----------------------------------------------------------------------------------------------
# Cases

class Case:
    """One derive request (a program state) plus its oracle code.

    key     canonical identity of the state (used for dedup, known findings, replay names)
    spec    JSON-able description (goes to evidence samples / replay json)
    body    Rust source placed inside `mod cN { use crate::sup::*; use educe::Educe; ... }`
    expect  'accept' (documented form: educe must not refuse), 'reject' (must be refused by an educe
            diagnostic), 'any' (acceptance not specified)
    run     whether body defines `pub fn check(r: &mut Rep)` to be executed
    depth   number of deviations from the plain derive (lattice depth)
    """
    __slots__ = ('key', 'spec', 'body', 'expect', 'run', 'depth', 'tags')

    def __init__(self, key, body, spec=None, expect='accept', run=True, depth=0, tags=None):
        self.key = key
        self.body = body
        self.spec = spec if spec is not None else {}
        self.expect = expect
        self.run = run
        self.depth = depth
        self.tags = tags or {}


class CaseResult:
    __slots__ = ('case', 'diags', 'status', 'evals', 'outcomes', 'fails', 'nfail', 'ran')

    def __init__(self, case):
        self.case = case
        self.diags = []       # list of dicts {level, code, msg, kind}
        self.status = 'ok'    # ok | educe_diag | gen_error | panic | hand_error | timeout
        self.evals = 0
        self.outcomes = 0
        self.fails = []
        self.nfail = 0
        self.ran = False

    def warnings(self):
        return [d for d in self.diags if d['level'] == 'warning']

    def errors(self):
        return [d for d in self.diags if d['level'] == 'error']


PRELUDE = '''#![allow(dead_code)]
#![allow(unused_imports)]
#![allow(non_camel_case_types, non_upper_case_globals)]
#![allow(clippy::all)]
#[path = "%s"]
#[allow(unused, unreachable_code)]
pub mod sup;
'''


def render_shard(cases, run, extra_prelude='', prelude=None):
    """Returns (source text, [(first_line, last_line)] per case)."""
    parts = [PRELUDE % SUPPORT_RS if prelude is None else prelude, extra_prelude]
    line = sum(p.count('\n') for p in parts) + 1
    spans = []
    for i, c in enumerate(cases):
        head = 'pub mod c%d {\n#[allow(unused_imports)] use crate::sup::*;\n#[allow(unused_imports)] use educe::Educe;\n' % i
        txt = head + c.body.rstrip('\n') + '\n}\n'
        n = txt.count('\n')
        spans.append((line, line + n - 1))
        line += n
        parts.append(txt)
    if run:
        tbl = ''.join('    (%d, c%d::check as fn(&mut sup::Rep)),\n' % (i, i) for i, c in enumerate(cases) if c.run)
        parts.append('fn main() {\n    let cases: &[(usize, fn(&mut sup::Rep))] = &[\n%s    ];\n    sup::run_all(cases);\n}\n' % tbl)
    return ''.join(parts), spans


def _classify(d):
    """d: rustc JSON diagnostic.  Returns (kind, line) where kind in educe|generated|panic|hand and line is the
    line in the shard file the diagnostic should be attributed to (or None)."""
    msg = d.get('message', '')
    spans = d.get('spans') or []
    prim = [s for s in spans if s.get('is_primary')] or spans
    line = None
    generated = False
    for s in prim:
        e = s.get('expansion')
        top = s
        while e:
            if 'Educe' in (e.get('macro_decl_name') or ''):
                generated = True
            top = e['span']
            e = top.get('expansion')
        if line is None:
            line = top.get('line_start')
    if 'proc-macro derive panicked' in msg or 'proc macro panicked' in msg:
        return 'panic', line
    if generated:
        return 'generated', line
    if d.get('code') is None and d.get('level') == 'error':
        return 'educe', line
    return 'hand', line


def parse_diags(stderr, spans):
    """Map rustc JSON diagnostics to case indices.  Returns ({idx: [diag]}, [unattributed])."""
    per = {}
    loose = []
    starts = [s[0] for s in spans]
    import bisect
    for l in stderr.splitlines():
        if not l.startswith('{'):
            if l.strip():
                loose.append({'level': 'raw', 'msg': l, 'code': None, 'kind': 'raw'})
            continue
        try:
            d = json.loads(l)
        except Exception:
            loose.append({'level': 'raw', 'msg': l, 'code': None, 'kind': 'raw'})
            continue
        lvl = d.get('level')
        if lvl not in ('error', 'warning', 'error: internal compiler error'):
            continue
        msg = d.get('message', '')
        if not d.get('spans'):
            if msg.startswith('aborting due to') or 'warning emitted' in msg or 'warnings emitted' in msg \
                    or msg.startswith('For more information') or msg.startswith('Some errors have detailed'):
                continue
        kind, line = _classify(d)
        rec = {'level': 'error' if lvl != 'warning' else 'warning', 'code': (d.get('code') or {}).get('code'),
               'msg': msg, 'kind': kind,
               'notes': [c.get('message', '') for c in d.get('children', [])][:4]}
        if line is None:
            loose.append(rec)
            continue
        i = bisect.bisect_right(starts, line) - 1
        if i < 0 or line > spans[i][1]:
            loose.append(rec)
            continue
        per.setdefault(i, []).append(rec)
    return per, loose


def _rustc_cmd(src, out, run, so, deps, cfgs=()):
    cmd = ['rustc', '--edition', '2021', '--error-format=json', '-C', 'debuginfo=0', '-C', 'opt-level=0',
           '-W', 'unused', '--extern', 'educe=' + so, '-L', 'dependency=' + deps]
    for c in cfgs:
        cmd += ['--cfg', c]
    if run:
        cmd += ['--crate-type', 'bin', '-C', 'codegen-units=4', '-o', out]
    else:
        cmd += ['--crate-type', 'lib', '--emit=metadata', '-o', out + '.rmeta']
    cmd.append(src)
    return cmd


class ShardJob:
    def __init__(self, sid, cases, run, wdir, extra_prelude='', prelude=None):
        self.sid = sid
        self.cases = cases
        self.run = run
        self.wdir = wdir
        self.extra_prelude = extra_prelude
        self.prelude = prelude


def _do_shard(job, so, deps, compile_timeout, run_timeout, single_round=False):
    """Compile one shard to the fixpoint, optionally run it.  Returns list of CaseResult (same order as job.cases)."""
    results = [CaseResult(c) for c in job.cases]
    live = list(range(len(job.cases)))
    rounds = 0
    src = os.path.join(job.wdir, 's%d.rs' % job.sid)
    out = os.path.join(job.wdir, 's%d.bin' % job.sid)
    while True:
        rounds += 1
        cases = [job.cases[i] for i in live]
        if not cases:
            return results
        if single_round:
            # sentinel: a request educe always refuses, placed last; its diagnostic proves that macro expansion
            # reached the end of the shard (a fatal parse error earlier would silently skip the remaining cases)
            cases = cases + [Case('sentinel', '#[derive(Educe)]\n#[educe(VerifSentinel)]\nstruct Sentinel;\n', run=False)]
        text, spans = render_shard(cases, job.run and any(c.run for c in cases), job.extra_prelude, job.prelude)
        with open(src, 'w') as f:
            f.write(text)
        will_run = job.run and any(c.run for c in cases)
        rc, so_, se = run_proc(_rustc_cmd(src, out, will_run, so, deps), timeout=compile_timeout)
        if rc == -9 or (rc not in (0, 1)):
            # compiler timeout / crash: bisect
            if len(live) == 1:
                r = results[live[0]]
                r.status = 'timeout' if rc == -9 else 'crash'
                r.diags.append({'level': 'error', 'code': None, 'kind': 'crash', 'msg': 'rustc rc=%s: %s' % (rc, se[-400:])})
                return results
            mid = len(live) // 2
            # a hang is found by bisection: sub-shards get a proportionally shorter cap (never below 20 s)
            sub_timeout = max(20, compile_timeout // 2) if rc == -9 else compile_timeout
            for part in (live[:mid], live[mid:]):
                sub = ShardJob(job.sid, [job.cases[i] for i in part], job.run, job.wdir, job.extra_prelude, job.prelude)
                sub.sid = job.sid
                rs = _do_shard(sub, so, deps, sub_timeout, run_timeout, single_round)
                for i, r in zip(part, rs):
                    results[i] = r
            return results
        per, loose = parse_diags(se, spans)
        if single_round:
            sent = per.pop(len(cases) - 1, [])
            if not any('VerifSentinel' in d['msg'] for d in sent) and rc in (0, 1):
                if len(live) == 1:
                    r = results[live[0]]
                    r.status = 'parse_abort'
                    r.diags.append({'level': 'error', 'code': None, 'kind': 'hand', 'msg': 'macro expansion did not reach the end of the program: ' + se[-300:]})
                    return results
                mid = len(live) // 2
                for part in (live[:mid], live[mid:]):
                    sub = ShardJob(job.sid, [job.cases[i] for i in part], job.run, job.wdir, job.extra_prelude, job.prelude)
                    rs = _do_shard(sub, so, deps, compile_timeout, run_timeout, single_round)
                    for i, r in zip(part, rs):
                        results[i] = r
                return results
        bad = [l for l in loose if l['level'] in ('error',)]
        if bad and not per:
            raise MachineryError('unattributed rustc error in shard %s: %s' % (src, bad[0]['msg'][:500]))
        failed = set()
        for k, ds in per.items():
            r = results[live[k]]
            for d in ds:
                r.diags.append(d)
                if d['level'] == 'error':
                    failed.add(k)
        for k in failed:
            r = results[live[k]]
            kinds = {d['kind'] for d in r.errors()}
            if 'panic' in kinds:
                r.status = 'panic'
            elif 'educe' in kinds:
                r.status = 'educe_diag'
            elif 'generated' in kinds:
                r.status = 'gen_error'
            else:
                r.status = 'hand_error'
        if rc != 0 and not failed and not single_round:
            raise MachineryError('rustc failed on %s without attributable error: %s' % (src, se[-800:]))
        if single_round:
            return results
        if failed:
            live = [i for k, i in enumerate(live) if k not in failed]
            if rounds > 12:
                raise MachineryError('fixpoint did not converge for ' + src)
            continue
        break
    if job.run and any(job.cases[i].run for i in live):
        rc, so_, se = run_proc([out], timeout=run_timeout, mem_gb=8)
        idx2 = {k: i for k, i in enumerate(live)}
        seen = set()
        for l in so_.splitlines():
            if l.startswith('R '):
                _, k, ev, oc, nf = l.split(' ')[:5]
                r = results[idx2[int(k)]]
                r.evals, r.outcomes, r.nfail, r.ran = int(ev), int(oc), int(nf), True
                seen.add(int(k))
            elif l.startswith('F '):
                _, k, m = l.split(' ', 2)
                results[idx2[int(k)]].fails.append(m)
        if rc == -9:
            # the harness binary exceeded its wall-clock cap: that is a capacity problem of the check, never a verdict about educe
            raise MachineryError('shard binary %s exceeded the run cap of %ss' % (out, run_timeout))
        if rc != 0:
            # the binary died (abort / segfault): attribute to the first case without an R line
            missing = [k for k, i in enumerate(live) if job.cases[i].run and k not in seen]
            if not missing:
                raise MachineryError('shard binary %s failed rc=%s after all cases reported: %s' % (out, rc, se[-400:]))
            k = missing[0]
            r = results[idx2[k]]
            r.ran = True
            r.nfail += 1
            r.fails.append('process died rc=%s %s' % (rc, se[-300:].replace('\n', ' | ')))
            rest = [idx2[m] for m in missing[1:]]
            if rest:
                sub = ShardJob(job.sid, [job.cases[i] for i in rest], job.run, job.wdir, job.extra_prelude, job.prelude)
                rs = _do_shard(sub, so, deps, compile_timeout, run_timeout)
                for i, rr in zip(rest, rs):
                    results[i] = rr
        try:
            os.remove(out)
        except OSError:
            pass
    return results


def rt_run(cases, run=True, shard_size=None, name='rt', compile_timeout=900, run_timeout=600, extra_prelude='',
           keep=False, single_round=False, prelude=None):
    """Execute all cases on the real macro.  Returns list of CaseResult in input order."""
    so, deps = build_macro()
    if shard_size is None:
        shard_size = 250 if run else 2000
    n = len(cases)
    # balance shards over the cores
    nshards = max(1, -(-n // shard_size))
    if nshards < JOBS and n >= JOBS * 8:
        nshards = JOBS
    size = -(-n // nshards)
    wdir = os.path.join(BUILD, 'shards', '%s-%d' % (name, os.getpid()))
    shutil.rmtree(wdir, ignore_errors=True)
    os.makedirs(wdir)
    jobs = [ShardJob(s, cases[s * size:(s + 1) * size], run, wdir, extra_prelude, prelude) for s in range(nshards)]
    jobs = [j for j in jobs if j.cases]
    results = []
    t0 = time.time()
    with cf.ThreadPoolExecutor(max_workers=JOBS) as ex:
        futs = [ex.submit(_do_shard, j, so, deps, compile_timeout, run_timeout, single_round) for j in jobs]
        for f in futs:
            results.extend(f.result())
    log('[rt] %s: %d cases in %d shards, %.1fs' % (name, n, len(jobs), time.time() - t0))
    if not keep:
        shutil.rmtree(wdir, ignore_errors=True)
    return results


# ----------------------------------------------------------------------------------------------
# Known findings, replay, evidence, verdicts

def load_known(prop):
    path = os.path.join(VERIF, 'known_findings.json')
    if not os.path.exists(path):
        return []
    data = json.load(open(path))
    return [e for e in data.get('findings', []) if e.get('property') == prop and e.get('status') == 'known']


def match_known(known, key, msg):
    for e in known:
        if re.search(e.get('key_re', '.*'), key) and re.search(e.get('msg_re', '.*'), msg, re.S):
            return e
    return None


def standalone_program(case, with_main=True):
    text, _ = render_shard([case], case.run)
    return text


def write_replay(prop, case, what):
    d = os.path.join(os.environ.get('VERIF_REPLAY_DIR', os.path.join(VERIF, 'replays')), prop)
    os.makedirs(d, exist_ok=True)
    h = hashlib.sha1(case.key.encode()).hexdigest()[:12]
    p = os.path.join(d, h + '.rs')
    with open(p, 'w') as f:
        f.write('// replay for %s  key=%s\n// %s\n' % (prop, case.key, what.replace('\n', ' ')[:300]))
        f.write(standalone_program(case))
    with open(os.path.join(d, h + '.json'), 'w') as f:
        json.dump({'property': prop, 'key': case.key, 'spec': case.spec, 'expect': case.expect, 'run': case.run,
                   'observed': what, 'body': case.body}, f, indent=1)
    return p


def replay_file(path):
    """Compile + run a replay artefact against the current working tree.  Returns (failed?, description)."""
    meta = json.load(open(path[:-3] + '.json'))
    c = Case(meta['key'], meta['body'], meta.get('spec'), meta.get('expect', 'accept'), meta.get('run', True))
    r = rt_run([c], run=c.run, name='replay')[0]
    return r


class Verdict:
    """Collects per-check outcomes, prints VIOLATION / KNOWN-FINDING lines, writes evidence."""

    def __init__(self, prop, tier, seed):
        self.prop = prop
        self.tier = tier
        self.seed = seed
        self.t0 = time.time()
        self.known = load_known(prop)
        self.violations = []       # (case, what)
        self.known_hits = {}       # entry id -> [keys]
        self.cov = {'states': 0, 'transitions': 0, 'evaluations': 0, 'distinct_nontrivial': 0,
                    'traces_validated_against_impl': 0, 'samples': [], 'exhaustive': True, 'caps_hit': [],
                    'blocked': 0}
        self.assumptions = []
        self.notes = {}

    def violation(self, case, what):
        e = match_known(self.known, case.key, what)
        if e is not None:
            self.known_hits.setdefault(e['id'], []).append(case.key)
            return
        self.violations.append((case, what))

    def add_states(self, cases):
        self.cov['states'] += len(cases)
        self.cov['transitions'] += sum(max(1, c.depth) for c in cases)

    def sample(self, obj):
        if len(self.cov['samples']) < 12:
            self.cov['samples'].append(obj)

    def cap(self, what):
        self.cov['exhaustive'] = False
        self.cov['caps_hit'].append(what)

    def finish(self, rule, extra=None, confirm=None):
        """confirm(case) -> CaseResult-like re-execution used to replay each violation twice."""
        for e in self.known:
            if e['id'] in self.known_hits:
                print('KNOWN-FINDING: property=%s %s (%d states)' % (self.prop, e['what'], len(self.known_hits[e['id']])))
        paths = []
        shown = 0
        for case, what in self.violations:
            p = write_replay(self.prop, case, what)
            paths.append(p)
            if shown < 40:
                print('VIOLATION property=%s replay=%s' % (self.prop, p))
                print('  key=%s\n  %s' % (case.key, what[:600].replace('\n', '\n  ')))
                shown += 1
        if len(self.violations) > shown:
            print('VIOLATION property=%s replay=%s (and %d more; all replays under %s)' % (
                self.prop, paths[shown], len(self.violations) - shown, os.path.dirname(paths[0])))
        cov = dict(self.cov)
        cov['rule'] = rule
        cov['known_findings_matched'] = {k: len(v) for k, v in self.known_hits.items()}
        cov['known_finding_states'] = {k: v[:20] for k, v in self.known_hits.items()}
        if extra:
            cov.update(extra)
        cov.update(self.notes)
        ev = {'property_id': self.prop, 'tier': self.tier, 'seed': self.seed, 'level': 'model_checking',
              'coverage': cov, 'assumptions': self.assumptions, 'wall_s': round(time.time() - self.t0, 2),
              'violations': len(self.violations)}
        evdir = os.environ.get('VERIF_EVIDENCE_DIR', os.path.join(VERIF, 'evidence'))
        os.makedirs(evdir, exist_ok=True)
        with open(os.path.join(evdir, self.prop + '.json'), 'w') as f:
            json.dump(ev, f, indent=1)
        log('[%s] tier=%s states=%d transitions=%d evaluations=%d nontrivial=%d validated=%d blocked=%d violations=%d known=%d wall=%.1fs' % (
            self.prop, self.tier, cov['states'], cov['transitions'], cov['evaluations'], cov['distinct_nontrivial'],
            cov['traces_validated_against_impl'], cov['blocked'], len(self.violations),
            sum(len(v) for v in self.known_hits.values()), time.time() - self.t0))
        return 1 if self.violations else 0


def guard(cond, msg):
    """Vacuity / sanity guard: failing it is a machinery failure, never a pass."""
    if not cond:
        raise MachineryError('vacuity guard: ' + msg)
