"""Detection demonstrations: apply a property-breaking patch to a scratch copy of the repository (outside /repo and
/verif), point the check at it, expect exit 1, remove the copy and its build output.

  ./check selftest <patch.diff> <PROP>[,<PROP>...] [--tier quick|thorough] [--keep]
  ./check selftest --all [--tier quick]        every /verif/seeded/*/patch.diff against the property in its meta.json
"""
import glob
import json
import os
import shutil
import subprocess
import sys
import time

from . import core


def run_one(patch, props, tier='quick', verbose=True):
    scratch = os.path.join(os.path.expanduser('~'), '.cache', 'educe-verif-%d-%d' % (os.getpid(), int(time.time() * 1000) % 100000))
    os.makedirs(os.path.dirname(scratch), exist_ok=True)
    subprocess.check_call(['rsync', '-a', '--exclude', 'target', '--exclude', '.git', '/repo/', scratch + '/'])
    results = {}
    tag = None
    try:
        subprocess.check_call(['git', 'init', '-q'], cwd=scratch)
        p = subprocess.run(['git', 'apply', '--whitespace=nowarn', os.path.abspath(patch)], cwd=scratch, stderr=subprocess.PIPE)
        if p.returncode != 0:
            p = subprocess.run(['patch', '-p1', '--fuzz=3', '-i', os.path.abspath(patch)], cwd=scratch, stdout=subprocess.PIPE, stderr=subprocess.PIPE)
            if p.returncode != 0:
                return {'error': 'patch does not apply: ' + p.stdout.decode()[-300:] + p.stderr.decode()[-300:]}
        env = dict(os.environ)
        env['EDUCE_REPO'] = scratch
        env['VERIF_EVIDENCE_DIR'] = os.path.join(scratch, '.evidence')
        env['VERIF_REPLAY_DIR'] = os.path.join(core.BUILD, 'selftest-replays')
        import hashlib
        tag = hashlib.sha1(os.path.abspath(scratch).encode()).hexdigest()[:10]
        for prop in props:
            t0 = time.time()
            p = subprocess.run([os.path.join(core.VERIF, 'check'), prop, '--tier', tier], env=env, stdout=subprocess.PIPE,
                               stderr=subprocess.PIPE, cwd=core.VERIF)
            out = p.stdout.decode()
            nviol = out.count('VIOLATION property=')
            first = [l for l in out.splitlines() if not l.startswith('VIOLATION')][:3]
            results[prop] = {'rc': p.returncode, 'violations': nviol, 'wall': round(time.time() - t0, 1), 'first': first,
                             'stderr_tail': p.stderr.decode()[-400:] if p.returncode not in (0, 1) else ''}
            if verbose:
                print('  %s on %s: rc=%d violations=%d (%.0fs) %s' % (prop, patch, p.returncode, nviol, time.time() - t0,
                                                                     ' | '.join(x.strip()[:160] for x in first[:2])))
                if p.returncode not in (0, 1):
                    print(p.stderr.decode()[-1500:])
    finally:
        shutil.rmtree(scratch, ignore_errors=True)
        if tag:
            for d in glob.glob(os.path.join(core.BUILD, '*' + tag + '*')):
                if os.path.isdir(d):
                    shutil.rmtree(d, ignore_errors=True)
                else:
                    os.remove(d)
    return results


def main(args):
    tier = 'quick'
    if '--tier' in args:
        i = args.index('--tier')
        tier = args[i + 1]
        del args[i:i + 2]
    if args and args[0] == '--all':
        only = args[1:]
        bad = 0
        for meta in sorted(glob.glob(os.path.join(core.VERIF, 'seeded', '*', 'meta.json'))):
            m = json.load(open(meta))
            name = os.path.basename(os.path.dirname(meta))
            if only and not any(o in name for o in only):
                continue
            props = m.get('detected_by') or [m['property']]
            res = run_one(os.path.join(os.path.dirname(meta), 'patch.diff'), props, tier, verbose=False)
            ok = any(r.get('rc') == 1 for r in res.values()) if 'error' not in res else False
            print('%s %s %s' % ('DETECTED' if ok else 'MISSED  ', name, json.dumps({k: (v['rc'], v['violations']) for k, v in res.items()} if 'error' not in res else res)))
            bad += 0 if ok else 1
        return 1 if bad else 0
    if len(args) < 2:
        print(__doc__)
        return 2
    res = run_one(args[0], args[1].split(','), tier)
    if 'error' in res:
        print(res['error'])
        return 2
    return 0 if all(r['rc'] == 1 for r in res.values()) else 1
