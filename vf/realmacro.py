"""Binding engine XP to the real macro: the same handler is run *inside rustc* through the hook
`educe_verif_expand_to_string!` (proc-macro mode of the hook cfg) and its result is compared, token for token,
with the in-process result."""
import concurrent.futures as cf
import json
import os
import re
import shutil

from . import core
from . import xp


def build_hooked_macro():
    """the proc-macro built from $EDUCE_REPO with the hook cfg on (exports educe_verif_expand_to_string!)"""
    core.ensure_lockfile()
    tdir = os.path.join(core.BUILD, 'rtx-target-' + core.repo_tag())
    env = dict(core.ENV)
    env['RUSTFLAGS'] = '--cfg ' + core.GUARD
    with core.Lock('cargo-rtx-' + core.repo_tag()):
        rc, out, err = core.run_proc(['cargo', 'build', '--offline', '--message-format=json', '--manifest-path', os.path.join(core.EDUCE_REPO, 'Cargo.toml'),
                                      '--target-dir', tdir], timeout=1200, mem_gb=32, env=env)
    if rc != 0:
        raise core.MachineryError('educe does not build as a proc-macro with the hook cfg on:\n' + err[-2000:])
    so = None
    for l in out.splitlines():
        try:
            j = json.loads(l)
        except Exception:
            continue
        if j.get('reason') == 'compiler-artifact' and j.get('target', {}).get('name') == 'educe':
            for f in j.get('filenames', []):
                if f.endswith('.so'):
                    so = f
    if not so:
        raise core.MachineryError('hooked proc-macro artefact not found')
    return so, os.path.join(tdir, 'debug', 'deps')


def expand_in_rustc(inputs, env=None, shard=1500):
    """returns a list of result strings: 'OK <tokens>' | 'ERR <message>' | 'PANIC' (None if the compiler failed for that shard)"""
    so, deps = build_hooked_macro()
    wdir = os.path.join(core.BUILD, 'rtx-%d' % os.getpid())
    shutil.rmtree(wdir, ignore_errors=True)
    os.makedirs(wdir)
    chunks = [(k, inputs[k:k + shard]) for k in range(0, len(inputs), shard)]

    def work(ch):
        k, part = ch
        src = os.path.join(wdir, 'b%d.rs' % k)
        exe = os.path.join(wdir, 'b%d.bin' % k)
        with open(src, 'w') as f:
            f.write('#![allow(dead_code)]\nstatic E: &[&str] = &[\n')
            for t in part:
                f.write('educe::educe_verif_expand_to_string! { %s },\n' % t)
            f.write('];\nfn main() { for e in E { println!("{}", e.replace(\'\\\\\', "\\\\\\\\").replace(\'\\n\', "\\\\n")); } }\n')
        rc, out, err = core.run_proc(['rustc', '--edition', '2021', '-C', 'debuginfo=0', '-C', 'opt-level=0', '--extern', 'educe=' + so, '-L', 'dependency=' + deps,
                                      '-o', exe, src], timeout=900, env=env or core.ENV)
        if rc != 0:
            return k, None, err[-800:]
        rc, out, err = core.run_proc([exe], timeout=300)
        lines = out.split('\n')
        if lines and lines[-1] == '':
            lines.pop()
        return k, [l.replace('\\n', '\n').replace('\\\\', '\\') for l in lines], None
    res = [None] * len(inputs)
    errs = []
    with cf.ThreadPoolExecutor(max_workers=core.JOBS) as ex:
        for k, lines, err in ex.map(work, chunks):
            if lines is None:
                errs.append(err)
                continue
            if len(lines) != len(inputs[k:k + shard]):
                errs.append('shard %d: %d results for %d inputs' % (k, len(lines), len(inputs[k:k + shard])))
                continue
            for i, l in enumerate(lines):
                res[k + i] = l
    shutil.rmtree(wdir, ignore_errors=True)
    if errs:
        raise core.MachineryError('real-backend expansion failed: ' + errs[0])
    return res


def _ws(s):
    return re.sub(r'\s+', '', s or '')


def bind(binary, inputs, xres, limit=None, env=None):
    """Compare in-process results `xres` with the real backend for `inputs` (first `limit`).  Returns (checked, mismatches)."""
    idx = list(range(len(inputs)))
    if limit is not None:
        idx = idx[:limit]
    real = expand_in_rustc([inputs[i] for i in idx], env=env)
    oks = [(i, r[3:]) for i, r in zip(idx, real) if r.startswith('OK ')]
    canon = dict(zip([i for i, _ in oks], xp.retokenise(binary, [t for _, t in oks])))
    mism = []
    for i, r in zip(idx, real):
        x = xres[i]
        if r.startswith('OK '):
            if x['st'] != 'ok' or canon[i] != x['raw']:
                mism.append((i, 'rustc: OK %s' % (canon[i] or '')[:300], 'in-process: %s %s' % (x['st'], (x.get('raw') or x.get('msg') or '')[:300])))
        elif r.startswith('ERR '):
            if x['st'] != 'err' or _ws(r[4:]) != _ws(x.get('msg')):
                mism.append((i, 'rustc: %s' % r[:300], 'in-process: %s %s' % (x['st'], (x.get('raw') or x.get('msg') or '')[:300])))
        else:
            if x['st'] != 'panic':
                mism.append((i, 'rustc: %s' % r[:100], 'in-process: %s' % x['st']))
    return len(idx), mism


def conformance(v, binary, inputs, xres, limit=None):
    """binding step of an XP check: the in-process results must equal what the real macro computes inside rustc"""
    seen, ins, xs = set(), [], []
    for t, x in zip(inputs, xres):
        if t not in seen:
            seen.add(t)
            ins.append(t)
            xs.append(x)
    n, mism = bind(binary, ins, xs, limit)
    v.notes['real_backend_conformance'] = {'inputs_expanded_inside_rustc': n, 'of_distinct_inputs': len(ins), 'mismatches': len(mism)}
    if limit is not None and len(ins) > limit:
        v.notes['real_backend_conformance']['cap'] = 'first %d distinct inputs' % limit
    if mism:
        raise core.MachineryError('engine XP disagrees with the real macro on %d inputs, e.g.\n%s\n%s\n%s' % (len(mism), ins[mism[0][0]], mism[0][1], mism[0][2]))
    return n
