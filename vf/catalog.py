"""Structured catalogue of derive requests for the token-level properties (C12, C14, C15, C16, C18):
shapes, per-trait-group configurations (own parameters only), merging and rendering."""
import itertools

GROUPS = ['Debug', 'Clone', 'PartialEq', 'PartialOrd', 'Hash', 'Default', 'Deref', 'DerefMut', 'Into']
# coupled partner that may be educed together with the group's primary trait
PARTNER = {'Clone': 'Copy', 'PartialEq': 'Eq', 'PartialOrd': 'Ord'}
TRAIT_SRC = {
    'Debug': '::core::fmt::Debug', 'Clone': '::core::clone::Clone', 'Copy': '::core::marker::Copy',
    'PartialEq': '::core::cmp::PartialEq', 'Eq': '::core::cmp::Eq', 'PartialOrd': '::core::cmp::PartialOrd',
    'Ord': '::core::cmp::Ord', 'Hash': '::core::hash::Hash', 'Default': '::core::default::Default',
    'Deref': '::core::ops::Deref', 'DerefMut': '::core::ops::DerefMut', 'Into': '::core::convert::Into',
}
# canonical token strings of the trait paths; filled by xp.init_canon() with the driver's own tokeniser
TRAIT_PATH = {}


class XShape:
    """kind struct|enum|union; variants: list of (style, n) with style u/t/n; generics / where: text"""

    def __init__(self, kind, variants, generics='', where='', name='Ty', ftypes=None, wide=False):
        self.kind = kind
        self.variants = variants
        self.generics = generics
        self.where = where
        self.name = name
        self.ftypes = ftypes or {}
        self.wide = wide

    def code(self):
        return '%s:%s%s%s' % (self.kind[0], ','.join(s + (str(n) if s != 'u' else '') for s, n in self.variants), '|g' if self.generics else '',
                              '|ty' if (self.ftypes and not self.generics) else ('|w' if self.wide else ''))

    def positions(self):
        return [(vi, fi) for vi, (s, n) in enumerate(self.variants) for fi in range(n)]

    def has_unit(self):
        return any(s == 'u' or n == 0 for s, n in self.variants)


class Config:
    def __init__(self, key, traits=None, v=None, f=None, ftypes=None):
        self.key = key
        self.traits = traits or []      # type-level meta texts, e.g. 'Debug(name = X)'
        self.v = v or {}                # vi -> [meta]
        self.f = f or {}                # (vi, fi) -> [meta]
        self.ftypes = ftypes or {}      # (vi, fi) -> type text override

    def copy(self):
        return Config(self.key, list(self.traits), {k: list(x) for k, x in self.v.items()}, {k: list(x) for k, x in self.f.items()},
                      dict(self.ftypes))


def merge(configs, order=None):
    """union of several groups' configurations (each group contributes its own metas)"""
    out = Config('+'.join(c.key for c in configs))
    for c in configs:
        out.traits += c.traits
        for k, x in c.v.items():
            out.v.setdefault(k, []).extend(x)
        for k, x in c.f.items():
            out.f.setdefault(k, []).extend(x)
        out.ftypes.update(c.ftypes)
    return out


def render(shape, cfg, split='one', default_ty='u8'):
    """split: 'one' = one #[educe(..)] list per position; 'each' = one attribute per meta"""
    def attrs(metas, ind):
        if not metas:
            return ''
        if split == 'one':
            return '%s#[educe(%s)]\n' % (ind, ', '.join(metas))
        if split == 'onec':     # one list with a trailing comma (the multi-line rustfmt layout)
            return '%s#[educe(%s,)]\n' % (ind, ', '.join(metas))
        if split == 'eachc':
            return ''.join('%s#[educe(%s,)]\n' % (ind, m) for m in metas)
        if split == 'eachf':    # one attribute per meta with other tools' attributes and a doc comment in between
            sep = ['%s#[allow(dead_code)]\n' % ind, '%s/// documented\n' % ind, '%s#[cfg_attr(any(), deprecated)]\n' % ind]
            return ''.join(('%s#[educe(%s)]\n' % (ind, m)) + (sep[k % 3] if k + 1 < len(metas) else '') for k, m in enumerate(metas))
        return ''.join('%s#[educe(%s)]\n' % (ind, m) for m in metas)

    def fty(vi, fi):
        return cfg.ftypes.get((vi, fi)) or shape.ftypes.get((vi, fi)) or default_ty

    out = '#[derive(Educe)]\n' + attrs(cfg.traits, '')
    kw = shape.kind
    wh = (' ' + shape.where) if shape.where else ''
    if kw in ('struct', 'union'):
        s, n = shape.variants[0]
        if s == 'u':
            return out + '%s %s%s%s;\n' % (kw, shape.name, shape.generics, wh)
        if s == 't':
            body = ''.join('%s    %s,\n' % (attrs(cfg.f.get((0, i)), '    '), fty(0, i)) for i in range(n))
            return out + '%s %s%s(\n%s)%s;\n' % (kw, shape.name, shape.generics, body, wh)
        body = ''.join('%s    f%d: %s,\n' % (attrs(cfg.f.get((0, i)), '    '), i, fty(0, i)) for i in range(n))
        return out + '%s %s%s%s {\n%s}\n' % (kw, shape.name, shape.generics, wh, body)
    out += 'enum %s%s%s {\n' % (shape.name, shape.generics, wh)
    for vi, (s, n) in enumerate(shape.variants):
        out += attrs(cfg.v.get(vi), '    ')
        if s == 'u':
            out += '    V%d,\n' % vi
        elif s == 't':
            body = ''.join('%s        %s,\n' % (attrs(cfg.f.get((vi, i)), '        '), fty(vi, i)) for i in range(n))
            out += '    V%d(\n%s    ),\n' % (vi, body)
        else:
            body = ''.join('%s        f%d: %s,\n' % (attrs(cfg.f.get((vi, i)), '        '), i, fty(vi, i)) for i in range(n))
            out += '    V%d {\n%s    },\n' % (vi, body)
    return out + '}\n'


# ------------------------------------------------------------------------------------------
# per-group configurations

def _field_products(shape, alphabet, maxdev=None):
    """assignments position -> symbol; alphabet[0] is the plain choice; at most maxdev non-plain positions"""
    pos = shape.positions()
    if len(pos) > 6:
        # wide shapes: breadth-first by deviations (at most maxdev, never more than 2) instead of the full product
        k = 2 if maxdev is None else min(maxdev, 2)
        yield {p: alphabet[0] for p in pos}
        for r in range(1, k + 1):
            for where in itertools.combinations(pos, r):
                if r == 2 and (pos.index(where[0]) + pos.index(where[1])) % 3:
                    continue
                for syms in itertools.product(alphabet[1:], repeat=r):
                    d = {p: alphabet[0] for p in pos}
                    d.update(zip(where, syms))
                    yield d
        return
    for combo in itertools.product(alphabet, repeat=len(pos)):
        if maxdev is not None and sum(1 for c in combo if c != alphabet[0]) > maxdev:
            continue
        yield dict(zip(pos, combo))


def group_configs(group, shape, level='small', partner=False):
    """configurations of one trait group on a shape.  level: plain | small | full.
    partner: also educe the coupled partner trait (Copy / Eq / Ord)."""
    maxdev = {'plain': 0, 'small': 1, 'full': None}[level]
    union = shape.kind == 'union'
    out = []
    pos = shape.positions()
    named = {(vi, fi): shape.variants[vi][0] == 'n' for vi, fi in pos}

    def mk(key, traits, f=None, v=None, ftypes=None):
        out.append(Config('%s[%s]' % (group, key), traits, v, f, ftypes))

    if group == 'Debug':
        tl = ['Debug(unsafe)'] if union else ['Debug']
        if level != 'plain':
            if union:
                tl += ['Debug(unsafe, name = Zz)', 'Debug(unsafe, name = false)']
            elif shape.kind == 'struct':
                tl += ['Debug = Zz', 'Debug(name = false)', 'Debug(named_field = %s)' % ('true' if shape.variants[0][0] != 'n' else 'false')]
            else:
                tl += ['Debug(name = true)', 'Debug = Zz']
        for t in tl:
            if union:
                mk(t, [t])
                continue
            for asg in _field_products(shape, 'simr' if level == 'full' else 'sim', maxdev):
                f = {}
                ok = True
                for p, ch in asg.items():
                    if ch == 'i':
                        f[p] = ['Debug(ignore)']
                    elif ch == 'm':
                        f[p] = ['Debug(method(fmt_m))']
                    elif ch == 'r':
                        if not named[p] or 'named_field = false' in t:
                            ok = False
                        f[p] = ['Debug(name = kk)']
                if not ok:
                    continue
                # nameless empty shapes are refused: skip configurations that hide every field of a shape without a name
                if 'name = false' in t and (shape.has_unit() or all(c == 'i' for c in asg.values())):
                    continue
                if shape.kind == 'enum' and t == 'Debug' and False:
                    continue
                v = {}
                if shape.kind == 'enum' and level != 'plain' and t == 'Debug(name = true)':
                    v = {0: ['Debug(name = false)']} if not (shape.variants[0][0] == 'u' and False) else {}
                mk('%s|%s' % (t, ''.join(asg.values())), [t], f, v)
    elif group == 'Clone':
        tl = (['Copy', 'Clone'] if partner else ['Clone'])
        alph = 'o' if (union or (partner and shape.kind == 'struct')) else 'om'
        for asg in _field_products(shape, alph, maxdev):
            f = {p: ['Clone(method(clone_m))'] for p, ch in asg.items() if ch == 'm'}
            mk(''.join(asg.values()) + ('+Copy' if partner else ''), tl, f)
    elif group == 'PartialEq':
        tl = (['PartialEq(unsafe)'] if union else ['PartialEq']) + (['Eq'] if partner else [])
        if union:
            mk('unsafe' + ('+Eq' if partner else ''), tl)
        else:
            for carrier in (['PartialEq', 'Eq'] if partner and level != 'plain' else ['PartialEq']):
                for asg in _field_products(shape, 'cim', maxdev):
                    f = {}
                    for p, ch in asg.items():
                        if ch == 'i':
                            f[p] = ['%s(ignore)' % carrier]
                        elif ch == 'm':
                            f[p] = ['%s(method(eq_m))' % carrier]
                    mk('%s|%s%s' % (carrier, ''.join(asg.values()), '+Eq' if partner else ''), tl, f)
    elif group == 'PartialOrd':
        if union:
            return []
        tl = ['PartialOrd'] + (['Ord'] if partner else [])
        carriers = ['PartialOrd'] if not partner else (['Ord', 'PartialOrd'] if level != 'plain' else ['Ord'])
        for carrier in carriers:
            for asg in _field_products(shape, 'cimr', maxdev):
                f = {}
                for p, ch in asg.items():
                    if ch == 'i':
                        f[p] = ['%s(ignore)' % carrier]
                    elif ch == 'm':
                        f[p] = ['%s(method(cmp_m))' % carrier]
                    elif ch == 'r':
                        f[p] = ['%s(rank = %d)' % (carrier, 5 + p[1])]
                mk('%s|%s%s' % (carrier, ''.join(asg.values()), '+Ord' if partner else ''), tl, f)
    elif group == 'Hash':
        tl = ['Hash(unsafe)'] if union else ['Hash']
        if union:
            mk('unsafe', tl)
        else:
            for asg in _field_products(shape, 'cim', maxdev):
                f = {}
                for p, ch in asg.items():
                    if ch == 'i':
                        f[p] = ['Hash(ignore)']
                    elif ch == 'm':
                        f[p] = ['Hash(method(hash_m))']
                mk(''.join(asg.values()), tl, f)
    elif group == 'Default':
        news = ['Default'] if level == 'plain' else ['Default', 'Default(new)']
        for t in news:
            if shape.kind == 'enum':
                for dv in range(len(shape.variants)):
                    s, n = shape.variants[dv]
                    opts = [{}] if level == 'plain' or n == 0 else [{}, {(dv, 0): ['Default = 7']}, {(dv, n - 1): ['Default(expression = 1 + 2)']}]
                    for f in opts:
                        mk('%s|v%d|%s' % (t, dv, sorted(f)), [t], f, {dv: ['Default']} if len(shape.variants) > 1 or level != 'plain' else {})
            elif union:
                for df in range(shape.variants[0][1]):
                    mk('%s|f%d' % (t, df), [t], {(0, df): ['Default']})
                    if level != 'plain':
                        mk('%s|f%d=' % (t, df), [t], {(0, df): ['Default = 7']})
            else:
                n = shape.variants[0][1]
                opts = [{}] if level == 'plain' or n == 0 else [{}, {(0, 0): ['Default = 7']}, {(0, n - 1): ['Default(expr = 1 + 2)']}]
                for f in opts:
                    mk('%s|%s' % (t, sorted(f)), [t], f)
        if level != 'plain':
            mk('texpr', ['Default(expression = Ty::make())'])
            mk('texpr+new', ['Default(new, expression = Ty::make())'])
    elif group in ('Deref', 'DerefMut'):
        if union or shape.has_unit() or not shape.variants:
            return []
        choices = []
        for vi, (s, n) in enumerate(shape.variants):
            choices.append(list(range(n)) if level != 'plain' else [0])
        for combo in itertools.product(*choices):
            f = {}
            for vi, fi in enumerate(combo):
                if shape.variants[vi][1] > 1 or level == 'full':
                    f[(vi, fi)] = [group]
            mk(''.join(map(str, combo)), [group], f)
    elif group == 'Into':
        if union or shape.has_unit() or not shape.variants:
            return []
        tsets = [['u8']] if level == 'plain' else [['u8'], ['u16'], ['u8', 'u16'], ['u16', 'u8', 'W']]
        for ts in tsets:
            f = {}
            for vi, (s, n) in enumerate(shape.variants):
                if n > 1:
                    for k, t in enumerate(ts):
                        f.setdefault((vi, k % n), []).append('Into(%s)' % t if k % 2 == 0 else 'Into(%s, method(conv_m))' % t)
            mk(','.join(ts), ['Into(%s)' % t for t in ts], f)
        # no marker at all: the source field is found by its type, which has to be the type of exactly one field (structs with pairwise distinct field types)
        if shape.kind == 'struct' and shape.ftypes and not shape.generics and len(shape.variants) == 1 and shape.variants[0][1] > 1:
            tys = [shape.ftypes.get((0, k)) for k in range(shape.variants[0][1])]
            for t in tys:
                if t and tys.count(t) == 1:
                    mk('unmarked:' + t, ['Into(%s)' % t], {})
    else:
        raise ValueError(group)
    return out


def needs(group, cfgs_present):
    """type-level metas of other traits are independent; nothing to adjust"""
    return True


def xshapes(level='small'):
    sh = [XShape('struct', [('n', 2)]), XShape('struct', [('t', 2)]), XShape('enum', [('t', 2), ('n', 2)]),
          XShape('enum', [('n', 1), ('t', 2)]), XShape('union', [('n', 2)]),
          # pairwise distinct field types (anything keyed by a field type sees several keys)
          XShape('enum', [('t', 2), ('n', 2)], ftypes={(0, 0): 'u8', (0, 1): 'u16', (1, 0): 'u32', (1, 1): 'u64'}),
          XShape('struct', [('n', 3)], ftypes={(0, 0): 'u8', (0, 1): 'i16', (0, 2): 'char'}),
          # wide shapes (two-digit field index, four variants)
          XShape('struct', [('t', 12)], wide=True), XShape('enum', [('t', 1), ('n', 5), ('t', 4), ('n', 1)], wide=True)]
    if level != 'small':
        sh += [XShape('struct', [('n', 1)]), XShape('struct', [('u', 0)]), XShape('enum', [('u', 0), ('t', 1), ('n', 2)]),
               XShape('enum', [('t', 1)]), XShape('struct', [('n', 3)]), XShape('union', [('n', 1)]),
               XShape('struct', [('n', 2)], "<'a, T: Clone, const N: usize>", 'where T: Copy',
                      ftypes={(0, 0): "&'a T", (0, 1): '[T; N]'}),
               XShape('enum', [('t', 2), ('n', 1)], '<T, U: Default>', '', ftypes={(0, 0): 'T', (0, 1): 'U', (1, 0): 'Vec<T>'})]
    return sh
