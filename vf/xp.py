"""Engine XP: educe compiled as an ordinary rlib under the hook cfg and driven in-process."""
import concurrent.futures as cf
import json
import os
import re
import shutil
import subprocess

from . import core

ALL_FEATURES = ['Debug', 'Clone', 'Copy', 'PartialEq', 'Eq', 'PartialOrd', 'Ord', 'Hash', 'Default', 'Deref', 'DerefMut', 'Into']


def _wrapper_dir():
    return os.path.join(core.BUILD, 'xp-' + core.repo_tag())


def build_xp(features=None):
    """Generate the wrapper workspace from $EDUCE_REPO/Cargo.toml and build the driver.  Returns path to the binary."""
    core.ensure_lockfile()
    w = _wrapper_dir()
    os.makedirs(os.path.join(w, 'educe'), exist_ok=True)
    os.makedirs(os.path.join(w, 'xp'), exist_ok=True)
    man = open(os.path.join(core.EDUCE_REPO, 'Cargo.toml')).read()
    out, skip, seen_lib = [], False, False
    for line in man.splitlines():
        st = line.strip()
        if st.startswith('[') and not st.startswith('[['):
            skip = False
            if st == '[lib]':
                seen_lib = True
                skip = True
                out.append('[lib]\npath = "%s"\n' % os.path.join(core.EDUCE_REPO, 'src', 'lib.rs'))
                continue
            if st == '[dev-dependencies]':
                skip = True
                continue
        if not skip:
            out.append(line)
    if not seen_lib:
        raise core.MachineryError('no [lib] section in the repository manifest')
    man2 = '\n'.join(out) + '\n'
    _write_if_changed(os.path.join(w, 'educe', 'Cargo.toml'), man2)
    feat = '' if features is None else ', default-features = false, features = [%s]' % ', '.join('"%s"' % f for f in features)
    _write_if_changed(os.path.join(w, 'xp', 'Cargo.toml'), '[package]\nname = "xp"\nversion = "0.0.0"\nedition = "2021"\n\n[[bin]]\nname = "xp"\npath = "%s"\n\n'
                      '[dependencies]\neduce = { path = "../educe"%s }\nproc-macro2 = "1"\nsyn = "2"\nquote = "1"\n' % (os.path.join(core.VERIF, 'xp', 'src', 'main.rs'), feat))
    _write_if_changed(os.path.join(w, 'Cargo.toml'), '[workspace]\nmembers = ["educe", "xp"]\nresolver = "2"\n')
    lock = os.path.join(w, 'Cargo.lock')
    if not os.path.exists(lock):
        shutil.copy(os.path.join(core.EDUCE_REPO, 'Cargo.lock'), lock)
    env = dict(core.ENV)
    env['RUSTFLAGS'] = '--cfg ' + core.GUARD
    tdir = os.path.join(w, 'target')
    with core.Lock('cargo-xp-' + core.repo_tag()):
        rc, out, err = core.run_proc(['cargo', 'build', '--offline', '--release', '-p', 'xp', '--manifest-path', os.path.join(w, 'Cargo.toml'),
                                      '--target-dir', tdir], timeout=1200, mem_gb=32, env=env)
    if rc != 0:
        raise core.MachineryError('XP driver does not build (hooks on):\n' + err[-3000:])
    return os.path.join(tdir, 'release', 'xp')


def _write_if_changed(path, text):
    if os.path.exists(path) and open(path).read() == text:
        return
    with open(path, 'w') as f:
        f.write(text)


def _esc(s):
    return s.replace('\\', '\\\\').replace('\n', '\\n').replace('\t', '\\t')


def run_chunk(binary, reqs, env=None, args=()):
    """reqs: list of (id, mode, text).  Sequential in one process (history = list order)."""
    data = ''.join('%s\t%s\t%s\n' % (i, m, _esc(t)) for i, m, t in reqs).encode()
    rc, out, err = core.run_proc([binary] + list(args), timeout=1800, mem_gb=8, env=env or core.ENV, stdin=data)
    if rc != 0:
        raise core.MachineryError('xp driver died rc=%s: %s' % (rc, err[-500:]))
    res = [json.loads(l) for l in out.splitlines() if l.startswith('{')]
    if len(res) != len(reqs):
        raise core.MachineryError('xp driver answered %d of %d requests' % (len(res), len(reqs)))
    return res


def expand_all(binary, inputs, idents=False, jobs=None, env=None, noraw=False, hashbody=False):
    """inputs: list of source texts.  Returns list of result dicts in order (parallel over chunks)."""
    jobs = jobs or core.JOBS
    n = len(inputs)
    if n == 0:
        return []
    size = max(1, -(-n // (jobs * 4)))
    chunks = [(s, inputs[s:s + size]) for s in range(0, n, size)]
    out = [None] * n
    args = (['--idents'] if idents else []) + (['--no-raw'] if noraw else []) + (['--hash-body'] if hashbody else [])

    def work(ch):
        s, part = ch
        return s, run_chunk(binary, [(str(s + k), 'x', t) for k, t in enumerate(part)], env=env, args=args)
    with cf.ThreadPoolExecutor(max_workers=jobs) as ex:
        for s, res in ex.map(work, chunks):
            for k, r in enumerate(res):
                out[s + k] = r
    return out


def retokenise(binary, strings):
    res = run_chunk(binary, [(str(k), 't', t) for k, t in enumerate(strings)])
    return [r.get('raw') for r in res]


def item_key(it):
    """canonical, order-insensitive identity of one impl item"""
    return json.dumps([it['tr'], it['gen'], it['self'], it['wh'], it['body']])


def items_multiset(res):
    return sorted(item_key(i) for i in res.get('items', []))


def init_canon(binary):
    """canonical token strings (as the driver prints them) of the trait paths"""
    from . import catalog as K
    names = sorted(K.TRAIT_SRC)
    for n, c in zip(names, retokenise(binary, [K.TRAIT_SRC[n] for n in names])):
        K.TRAIT_PATH[n] = c
    return K.TRAIT_PATH
