"""Shape grammar shared by the generators: structs / enums / unions with unit, tuple and named
field lists, identifier conventions, value enumeration and pattern rendering."""
import itertools

TY = 'Ty'


class Fields:
    """style: 'u' unit, 't' tuple, 'n' named; n = number of fields.
    A tuple/named list with n == 0 is the empty `()` / `{}` form."""
    __slots__ = ('style', 'n')

    def __init__(self, style, n=0):
        self.style = style
        self.n = n if style != 'u' else 0

    def code(self):
        return self.style + (str(self.n) if self.style != 'u' else '')

    def fname(self, i):
        return 'f%d' % i if self.style == 'n' else str(i)

    def __repr__(self):
        return self.code()


def field_lists(fmax, with_unit=True, with_empty=False, fmin=1):
    out = []
    if with_unit:
        out.append(Fields('u'))
    if with_empty:
        out.append(Fields('t', 0))
        out.append(Fields('n', 0))
    for n in range(fmin, fmax + 1):
        out.append(Fields('t', n))
        out.append(Fields('n', n))
    return out


class Shape:
    """kind: 'struct' | 'enum' | 'union'; variants: list of Fields (struct/union: exactly one)."""

    def __init__(self, kind, variants):
        self.kind = kind
        self.variants = variants

    def code(self):
        return self.kind[0] + ':' + ','.join(v.code() for v in self.variants)

    def positions(self):
        """all (variant index, field index)"""
        return [(vi, fi) for vi, v in enumerate(self.variants) for fi in range(v.n)]

    def vname(self, vi):
        return 'V%d' % vi


def struct_shapes(fmax, with_unit=True, with_empty=False):
    return [Shape('struct', [f]) for f in field_lists(fmax, with_unit, with_empty)]


def enum_shapes(vmax, fmax, vmin=1, with_unit=True, with_empty_lists=False):
    fl = field_lists(fmax, with_unit, with_empty_lists)
    out = []
    for v in range(vmin, vmax + 1):
        for combo in itertools.product(fl, repeat=v):
            out.append(Shape('enum', list(combo)))
    return out


# naming of the fields of named variants: None = f0, f1, ...; 'rot' = in variant vi of an enum the names are rotated by vi (V0 {f0, f1}, V1 {f1, f0}), so
# that two variants use the same names at different positions
NAMING = [None]


class naming:
    def __init__(self, mode):
        self.mode = mode

    def __enter__(self):
        NAMING.append(self.mode)

    def __exit__(self, *a):
        NAMING.pop()


def fname(vi, i, n):
    if NAMING[-1] == 'rot' and n > 1:
        return 'f%d' % ((i + vi) % n)
    return 'f%d' % i


def render_fields(fields, tys, attrs, indent='    '):
    """tys[i]: type text; attrs[i]: list of attribute lines (without #[...] wrapper? no: full text)."""
    if fields.style == 'u':
        return ''
    parts = []
    for i in range(fields.n):
        a = ''.join('%s%s\n' % (indent, x) for x in attrs[i])
        if fields.style == 'n':
            parts.append('%s%spub f%d: %s,\n' % (a, indent, i, tys[i]))
        else:
            parts.append('%s%spub %s,\n' % (a, indent, tys[i]))
    body = ''.join(parts)
    if fields.style == 'n':
        return ' {\n%s}' % body
    return ' (\n%s)' % body


def render_variant_fields(fields, tys, attrs, indent='        ', vi=0):
    if fields.style == 'u':
        return ''
    parts = []
    for i in range(fields.n):
        a = ''.join('%s%s\n' % (indent, x) for x in attrs[i])
        if fields.style == 'n':
            parts.append('%s%s%s: %s,\n' % (a, indent, fname(vi, i, fields.n), tys[i]))
        else:
            parts.append('%s%s%s,\n' % (a, indent, tys[i]))
    body = ''.join(parts)
    if fields.style == 'n':
        return ' {\n%s    }' % body
    return ' (\n%s    )' % body


def render_type(shape, type_attrs, tys, fattrs, vattrs=None, generics='', where='', derives='Educe',
                name=TY, discr=None, pre_attrs=()):
    """type_attrs: list of attribute lines for the item; tys[vi][fi]; fattrs[vi][fi] list of lines;
    vattrs[vi] list of lines; discr[vi] optional discriminant text."""
    lines = []
    lines.append('#[derive(%s)]\n' % derives)
    for a in pre_attrs:
        lines.append(a + '\n')
    for a in type_attrs:
        lines.append(a + '\n')
    if shape.kind == 'struct':
        f = shape.variants[0]
        body = render_fields(f, tys[0], fattrs[0])
        if f.style == 'n':
            lines.append('pub struct %s%s%s%s\n' % (name, generics, (' ' + where) if where else '', body))
        else:
            lines.append('pub struct %s%s%s%s;\n' % (name, generics, body, (' ' + where) if where else ''))
    elif shape.kind == 'union':
        f = shape.variants[0]
        body = render_fields(f, tys[0], fattrs[0])
        lines.append('pub union %s%s%s%s\n' % (name, generics, (' ' + where) if where else '', body))
    else:
        lines.append('pub enum %s%s%s {\n' % (name, generics, (' ' + where) if where else ''))
        for vi, f in enumerate(shape.variants):
            for a in (vattrs[vi] if vattrs else []):
                lines.append('    %s\n' % a)
            d = (' = %s' % discr[vi]) if discr and discr[vi] is not None else ''
            lines.append('    V%d%s%s,\n' % (vi, render_variant_fields(f, tys[vi], fattrs[vi], vi=vi), d))
        lines.append('}\n')
    return ''.join(lines)


def ctor(shape, vi, exprs, name=TY):
    """constructor expression for variant vi with field expressions exprs"""
    f = shape.variants[vi]
    head = name if shape.kind != 'enum' else '%s::V%d' % (name, vi)
    if f.style == 'u':
        return head
    if f.style == 't':
        return '%s(%s)' % (head, ', '.join(exprs))
    ev = vi if shape.kind == 'enum' else 0
    return '%s { %s }' % (head, ', '.join('%s: %s' % (fname(ev, i, f.n), e) for i, e in enumerate(exprs)))


def pattern(shape, vi, binds, name=TY):
    """pattern binding field i to binds[i] ('_' allowed)"""
    f = shape.variants[vi]
    head = name if shape.kind != 'enum' else '%s::V%d' % (name, vi)
    if f.style == 'u':
        return head
    if f.style == 't':
        return '%s(%s)' % (head, ', '.join(binds))
    ev = vi if shape.kind == 'enum' else 0
    return '%s { %s }' % (head, ', '.join('%s: %s' % (fname(ev, i, f.n), b) for i, b in enumerate(binds)))


def all_values(shape, domains, name=TY):
    """domains[vi][fi] = list of expression texts.  Returns list of constructor expressions."""
    out = []
    for vi, f in enumerate(shape.variants):
        if f.n == 0:
            out.append(ctor(shape, vi, [], name))
            continue
        for combo in itertools.product(*domains[vi]):
            out.append(ctor(shape, vi, list(combo), name))
    return out


def values_fn(shape, domains, ret='Vec<%s>' % TY, name=TY, fn='values'):
    vals = all_values(shape, domains, name)
    return 'fn %s() -> %s {\n    vec![\n%s    ]\n}\n' % (fn, ret, ''.join('        %s,\n' % v for v in vals)), len(vals)
