#!/bin/sh
# Build everything the checks need, offline, from files on disk: the real proc-macro (engine RT), the in-process
# driver against the hooked rlib (engine XP), the hash-seed shim (C16).  Idempotent; the checks rebuild on their own
# whenever /repo's working tree changes.
set -e
cd "$(dirname "$0")"
export CARGO_NET_OFFLINE=true
mkdir -p build evidence
cc -shared -fPIC -O1 -o build/seed.so support/seed.c
python3 - <<'PY'
import sys
sys.path.insert(0, '.')
from vf import core, xp
core.build_macro()
xp.build_xp()
print('setup ok')
PY
