//! Engine XP: in-process driver for educe built as an rlib under `--cfg magiclen_educe_verif`.
//!
//! stdin: one request per line, `<id>\t<mode>\t<text with \n and \t escaped>`; modes:
//!   x  expand a derive input; reply status + canonical token string + split impl items + identifiers
//!   h  canary: iteration order of a HashMap over comma-separated keys
//!   t  re-tokenise a token string (used to compare with the real proc-macro backend)
//! stdout: one JSON object per line.
use std::io::{BufRead, Write};
use std::str::FromStr;

use proc_macro2::{TokenStream, TokenTree};
use syn::parse::{Parse, ParseStream};

struct ImplItem {
    generics: Vec<String>,
    trait_path: String,
    self_ty: String,
    preds: Vec<String>,
    body: String,
}

impl Parse for ImplItem {
    fn parse(input: ParseStream) -> syn::Result<Self> {
        let _ = input.call(syn::Attribute::parse_outer)?;
        input.parse::<syn::Token![impl]>()?;
        let generics: syn::Generics = input.parse()?;
        let first: syn::Type = input.parse()?;
        let (trait_path, self_ty) = if input.peek(syn::Token![for]) {
            input.parse::<syn::Token![for]>()?;
            let st: syn::Type = input.parse()?;
            (ts(&first), ts(&st))
        } else {
            (String::new(), ts(&first))
        };
        let wc: Option<syn::WhereClause> = input.parse()?;
        let content;
        syn::braced!(content in input);
        let body: TokenStream = content.parse()?;
        Ok(ImplItem {
            generics: generics.params.iter().map(|p| ts(p)).collect(),
            trait_path,
            self_ty,
            preds: wc.map(|w| w.predicates.iter().map(|p| ts(p)).collect()).unwrap_or_default(),
            body: canon(body),
        })
    }
}

struct Items(Vec<ImplItem>);

impl Parse for Items {
    fn parse(input: ParseStream) -> syn::Result<Self> {
        let mut v = Vec::new();
        while !input.is_empty() {
            v.push(input.parse()?);
        }
        Ok(Items(v))
    }
}

fn ts<T: quote::ToTokens>(t: &T) -> String {
    canon(t.to_token_stream())
}

/// canonical token string: like `to_string()`, except that punctuation spacing is dropped and a negative literal token is printed as `-` followed by the
/// literal, which is how the compiler's own token streams represent it
fn canon(ts: TokenStream) -> String {
    fn norm(ts: TokenStream) -> TokenStream {
        let mut out = TokenStream::new();
        for t in ts {
            match t {
                TokenTree::Group(g) => {
                    let mut ng = proc_macro2::Group::new(g.delimiter(), norm(g.stream()));
                    ng.set_span(g.span());
                    out.extend(std::iter::once(TokenTree::Group(ng)));
                }
                TokenTree::Literal(l) => {
                    let s = l.to_string();
                    if let Some(rest) = s.strip_prefix('-') {
                        out.extend(std::iter::once(TokenTree::Punct(proc_macro2::Punct::new('-', proc_macro2::Spacing::Alone))));
                        match proc_macro2::Literal::from_str(rest) {
                            Ok(p) => out.extend(std::iter::once(TokenTree::Literal(p))),
                            Err(_) => out.extend(std::iter::once(TokenTree::Literal(l))),
                        }
                    } else {
                        out.extend(std::iter::once(TokenTree::Literal(l)));
                    }
                }
                TokenTree::Punct(p) => {
                    // spacing (`>:` vs `> :`) is not part of the token identity we compare
                    out.extend(std::iter::once(TokenTree::Punct(proc_macro2::Punct::new(p.as_char(), proc_macro2::Spacing::Alone))));
                }
                other => out.extend(std::iter::once(other)),
            }
        }
        out
    }
    norm(ts).to_string()
}

fn esc(s: &str) -> String {
    let mut o = String::with_capacity(s.len() + 2);
    o.push('"');
    for c in s.chars() {
        match c {
            '"' => o.push_str("\\\""),
            '\\' => o.push_str("\\\\"),
            '\n' => o.push_str("\\n"),
            '\r' => o.push_str("\\r"),
            '\t' => o.push_str("\\t"),
            c if (c as u32) < 0x20 => o.push_str(&format!("\\u{:04x}", c as u32)),
            c => o.push(c),
        }
    }
    o.push('"');
    o
}

fn arr(v: &[String]) -> String {
    format!("[{}]", v.iter().map(|s| esc(s)).collect::<Vec<_>>().join(","))
}

fn idents(ts: TokenStream, out: &mut std::collections::BTreeSet<String>) {
    for t in ts {
        match t {
            TokenTree::Ident(i) => {
                out.insert(i.to_string());
            }
            TokenTree::Group(g) => idents(g.stream(), out),
            TokenTree::Punct(p) if p.as_char() == '\'' => {}
            _ => {}
        }
    }
}

fn unescape(s: &str) -> String {
    let mut o = String::with_capacity(s.len());
    let mut it = s.chars();
    while let Some(c) = it.next() {
        if c == '\\' {
            match it.next() {
                Some('n') => o.push('\n'),
                Some('t') => o.push('\t'),
                Some('\\') => o.push('\\'),
                Some(x) => {
                    o.push('\\');
                    o.push(x)
                }
                None => o.push('\\'),
            }
        } else {
            o.push(c);
        }
    }
    o
}

extern "C" {
    fn fork() -> i32;
    fn waitpid(pid: i32, status: *mut i32, options: i32) -> i32;
    fn _exit(code: i32) -> !;
}

fn fnv1a(s: &str) -> u64 {
    let mut h: u64 = 0xcbf29ce484222325;
    for b in s.as_bytes() {
        h ^= *b as u64;
        h = h.wrapping_mul(0x100000001b3);
    }
    h
}

fn process(line: &str, want_idents: bool, out: &mut dyn Write) {
    let no_raw = std::env::args().any(|a| a == "--no-raw");
    // --hash-body: the method bodies of the split items are reported as a 64-bit FNV-1a hash of their canonical token string (enough to compare them)
    let hash_body = std::env::args().any(|a| a == "--hash-body");
    let mut parts = line.splitn(3, '\t');
    let id = parts.next().unwrap_or("");
    let mode = parts.next().unwrap_or("x");
    let text = unescape(parts.next().unwrap_or(""));
    if mode == "h" {
        // canary: iteration order of a std HashMap over the given keys (shows which hash seed is in effect)
        let mut m = std::collections::HashMap::new();
        for (i, k) in text.split(',').enumerate() {
            m.insert(k.to_string(), i);
        }
        let order: Vec<String> = m.keys().cloned().collect();
        writeln!(out, "{{\"id\":{},\"st\":\"ok\",\"raw\":{}}}", esc(id), esc(&order.join(","))).unwrap();
        return;
    }
    if mode == "t" {
        match TokenStream::from_str(&text) {
            Ok(t) => writeln!(out, "{{\"id\":{},\"st\":\"ok\",\"raw\":{}}}", esc(id), esc(&canon(t))).unwrap(),
            Err(e) => writeln!(out, "{{\"id\":{},\"st\":\"lexerr\",\"msg\":{}}}", esc(id), esc(&e.to_string())).unwrap(),
        }
        return;
    }
    let input = match TokenStream::from_str(&text) {
        Ok(t) => t,
        Err(e) => {
            writeln!(out, "{{\"id\":{},\"st\":\"lexerr\",\"msg\":{}}}", esc(id), esc(&e.to_string())).unwrap();
            return;
        }
    };
    let res = std::panic::catch_unwind(std::panic::AssertUnwindSafe(|| educe::educe_verif_expand(input)));
    match res {
        Err(_) => writeln!(out, "{{\"id\":{},\"st\":\"panic\"}}", esc(id)).unwrap(),
        Ok(Err(e)) => writeln!(out, "{{\"id\":{},\"st\":\"err\",\"msg\":{}}}", esc(id), esc(&e.to_string())).unwrap(),
        Ok(Ok(tokens)) => {
            // --no-raw: only the split items are wanted (the canonical string of the whole expansion is the larger half of the output)
            // --hash-raw: the canonical string of the whole expansion is reported as its FNV-1a hash (enough to compare expansions), without the split items
            let hash_raw = std::env::args().any(|a| a == "--hash-raw");
            if hash_raw {
                let c = canon(tokens.clone());
                let impls = c.matches("impl").count();
                writeln!(out, "{{\"id\":{},\"st\":\"ok\",\"raw\":{},\"impls\":{}}}", esc(id), esc(&format!("#{:016x}/{}", fnv1a(&c), c.len())), impls).unwrap();
                return;
            }
            let raw = if no_raw { String::new() } else { canon(tokens.clone()) };
            let mut s = format!("{{\"id\":{},\"st\":\"ok\",\"raw\":{}", esc(id), esc(&raw));
            match syn::parse2::<Items>(tokens.clone()) {
                Ok(items) => {
                    s.push_str(",\"items\":[");
                    for (k, it) in items.0.iter().enumerate() {
                        if k > 0 {
                            s.push(',');
                        }
                        s.push_str(&format!(
                            "{{\"tr\":{},\"gen\":{},\"self\":{},\"wh\":{},\"body\":{}}}",
                            esc(&it.trait_path),
                            arr(&it.generics),
                            esc(&it.self_ty),
                            arr(&it.preds),
                            esc(&if hash_body { format!("#{:016x}", fnv1a(&it.body)) } else { it.body.clone() })
                        ));
                    }
                    s.push(']');
                }
                Err(e) => s.push_str(&format!(",\"split_error\":{}", esc(&e.to_string()))),
            }
            if want_idents {
                let mut set = std::collections::BTreeSet::new();
                idents(tokens, &mut set);
                s.push_str(&format!(",\"idents\":{}", arr(&set.into_iter().collect::<Vec<_>>())));
            }
            s.push('}');
            writeln!(out, "{}", s).unwrap();
        }
    }
}

fn main() {
    std::panic::set_hook(Box::new(|_| {}));
    let want_idents = std::env::args().any(|a| a == "--idents");
    // --isolate: every request is served by a forked child of this (so far idle) process: no request sees state left behind by another one
    let isolate = std::env::args().any(|a| a == "--isolate");
    let stdin = std::io::stdin();
    let stdout = std::io::stdout();
    let mut out = std::io::BufWriter::new(stdout.lock());
    for line in stdin.lock().lines() {
        let line = line.unwrap();
        if isolate {
            out.flush().unwrap();
            let pid = unsafe { fork() };
            if pid == 0 {
                process(&line, want_idents, &mut out);
                out.flush().unwrap();
                unsafe { _exit(0) }
            }
            let mut status = 0i32;
            let r = unsafe { waitpid(pid, &mut status, 0) };
            if pid < 0 || r < 0 || status != 0 {
                let id = line.splitn(2, '\t').next().unwrap_or("");
                writeln!(out, "{{\"id\":{},\"st\":\"crash\",\"msg\":\"isolated child failed: pid {} status {}\"}}", esc(id), pid, status).unwrap();
            }
            continue;
        }
        process(&line, want_idents, &mut out);
    }
    out.flush().unwrap();
}
