// replay for C14  key=C14|Default/f-expr/[1, 2]:[u8; 2]/en|f(1, 1)#0.expression
// the reference spelling of a documented request is not accepted: err unsupported expression; enable syn's features=["full"]
#![allow(dead_code)]
#![allow(unused_imports)]
#![allow(non_camel_case_types, non_snake_case, non_upper_case_globals)]
#![allow(clippy::all)]
#[path = "/verif/support/support.rs"]
#[allow(unused, unreachable_code)]
pub mod sup;
pub mod c0 {
#[allow(unused_imports)] use crate::sup::*;
#[allow(unused_imports)] use educe::Educe;
// reference spelling:
#[derive(Educe)]
#[educe(Default)]
enum Ty<T> {
    V0(
        T,
        u8,
    ),
    #[educe(Default)]
    V1 {
        f0: u8,
        #[educe(Default(expression = [1, 2]))]
        f1: [u8; 2],
    },
}
}
