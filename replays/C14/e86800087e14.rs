// replay for C14  key=C14|Default/f-expr/-7:Wide/sn|f(0, 1)#0.expression
// a spelling of the same request generates different code: [('[":: core :: default :: Default", ["T"], "Ty < T >", ["T : :: core :: default :: Default"], "# [inline] fn default () -> Self { Self { f0 : < T as :: core :: default :: Default > :: default () , f1 : - 7 , } }"]', '[":: core :: default :: D
#![allow(dead_code)]
#![allow(unused_imports)]
#![allow(non_camel_case_types, non_snake_case, non_upper_case_globals)]
#![allow(clippy::all)]
#[path = "/verif/support/support.rs"]
#[allow(unused, unreachable_code)]
pub mod sup;
pub mod c0 {
#[allow(unused_imports)] use crate::sup::*;
#[allow(unused_imports)] use educe::Educe;
// reference spelling:
#[derive(Educe)]
#[educe(Default)]
struct Ty<T> {
    f0: T,
    #[educe(Default(expression = -7))]
    f1: Wide,
}

// this spelling generates different code:
#[derive(Educe)]
#[educe(Default)]
struct Ty<T> {
    f0: T,
    #[educe(Default(expression(-7)))]
    f1: Wide,
}
}
