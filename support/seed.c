/* LD_PRELOAD shim: makes std's RandomState seeds a function of VERIF_HASH_SEED (C16).
 * std obtains the per-thread hash keys through getrandom(2) (looked up as a libc symbol). */
#define _GNU_SOURCE
#include <stdint.h>
#include <stdlib.h>
#include <sys/types.h>

static uint64_t ctr = 0;

static uint64_t mix(uint64_t x) {
    x ^= x >> 30; x *= 0xBF58476D1CE4E5B9ULL;
    x ^= x >> 27; x *= 0x94D049BB133111EBULL;
    x ^= x >> 31;
    return x;
}

ssize_t getrandom(void *buf, size_t buflen, unsigned int flags) {
    (void)flags;
    const char *s = getenv("VERIF_HASH_SEED");
    uint64_t seed = s ? strtoull(s, 0, 10) : 0;
    unsigned char *p = (unsigned char *)buf;
    for (size_t i = 0; i < buflen; i++) {
        p[i] = (unsigned char)(mix(seed * 0x9E3779B97F4A7C15ULL + (ctr++)) >> 17);
    }
    return (ssize_t)buflen;
}

int getentropy(void *buf, size_t buflen) {
    return getrandom(buf, buflen, 0) == (ssize_t)buflen ? 0 : -1;
}
