// Support code included (as `crate::sup`) in every generated program of engine RT.
// Instrumented field types, custom methods, recording hasher, reporting, generic drivers.
use std::cell::{Cell, RefCell};
use std::cmp::Ordering;
use std::fmt;
use std::hash::{Hash, Hasher};

// ------------------------------------------------------------------------------------------
// reporting

pub struct Rep {
    pub evals: u64,
    pub outcomes: Vec<u64>,
    pub nfail: u64,
    pub fails: Vec<String>,
}

impl Rep {
    pub fn new() -> Self {
        Rep { evals: 0, outcomes: Vec::new(), nfail: 0, fails: Vec::new() }
    }
    #[inline]
    pub fn ev(&mut self) {
        self.evals += 1;
    }
    #[inline]
    pub fn outcome(&mut self, o: u64) {
        if self.outcomes.len() < 16 && !self.outcomes.contains(&o) {
            self.outcomes.push(o);
        }
    }
    pub fn fail(&mut self, m: String) {
        self.nfail += 1;
        if self.fails.len() < 4 {
            self.fails.push(m);
        }
    }
    /// one evaluation: records the outcome class and a failure if `ok` is false
    #[inline]
    pub fn ck(&mut self, ok: bool, outcome: u64, m: &dyn Fn() -> String) {
        self.evals += 1;
        self.outcome(outcome);
        if !ok {
            let s = m();
            self.fail(s);
        }
    }
}

thread_local! {
    static LAST_PANIC: RefCell<String> = RefCell::new(String::new());
}

pub fn quiet_panics() {
    std::panic::set_hook(Box::new(|info| {
        let s = if let Some(s) = info.payload().downcast_ref::<&str>() {
            s.to_string()
        } else if let Some(s) = info.payload().downcast_ref::<String>() {
            s.clone()
        } else {
            "<panic>".to_string()
        };
        let loc = info.location().map(|l| format!(" at line {}", l.line())).unwrap_or_default();
        LAST_PANIC.with(|p| *p.borrow_mut() = format!("{}{}", s, loc));
    }));
}

pub fn last_panic() -> String {
    LAST_PANIC.with(|p| p.borrow().clone())
}

/// run `f`, returning Err(panic message) if it panicked
pub fn guarded<R>(f: impl FnOnce() -> R) -> Result<R, String> {
    match std::panic::catch_unwind(std::panic::AssertUnwindSafe(f)) {
        Ok(r) => Ok(r),
        Err(_) => Err(last_panic()),
    }
}

pub fn run_all(cases: &[(usize, fn(&mut Rep))]) {
    quiet_panics();
    use std::io::Write;
    let out = std::io::stdout();
    for (k, f) in cases {
        let mut r = Rep::new();
        let res = std::panic::catch_unwind(std::panic::AssertUnwindSafe(|| f(&mut r)));
        if res.is_err() {
            r.fail(format!("check panicked: {}", last_panic()));
        }
        let mut o = out.lock();
        for m in &r.fails {
            let _ = writeln!(o, "F {} {}", k, m.replace('\n', "\\n"));
        }
        let _ = writeln!(o, "R {} {} {} {}", k, r.evals, r.outcomes.len(), r.nfail);
        let _ = o.flush();
    }
}

// ------------------------------------------------------------------------------------------
// scalar field types

/// plain observable scalar; its own traits are the obvious ones on the number
#[derive(Clone, Copy, Debug, PartialEq, Eq, PartialOrd, Ord, Default)]
pub struct V(pub u8);

impl Hash for V {
    fn hash<H: Hasher>(&self, state: &mut H) {
        state.write_u8(self.0);
    }
}

/// field type for *ignored* positions: carries a value, but every comparison / hash / fmt on it panics
#[derive(Clone, Copy)]
pub struct I(pub u8);

impl fmt::Debug for I {
    fn fmt(&self, f: &mut fmt::Formatter<'_>) -> fmt::Result {
        // used by hand-derived Debug on the types under test when printing failures; harmless
        write!(f, "I({})", self.0)
    }
}
impl PartialEq for I {
    fn eq(&self, _: &Self) -> bool {
        panic!("POISON: ignored field compared with ==")
    }
    #[allow(clippy::partialeq_ne_impl)]
    fn ne(&self, _: &Self) -> bool {
        panic!("POISON: ignored field compared with !=")
    }
}
impl Eq for I {}
impl PartialOrd for I {
    fn partial_cmp(&self, _: &Self) -> Option<Ordering> {
        panic!("POISON: ignored field compared with partial_cmp")
    }
}
impl Ord for I {
    fn cmp(&self, _: &Self) -> Ordering {
        panic!("POISON: ignored field compared with cmp")
    }
}
impl Hash for I {
    fn hash<H: Hasher>(&self, _: &mut H) {
        panic!("POISON: ignored field hashed")
    }
}

/// NaN-like scalar: the value 9 is incomparable with everything (including itself) and unequal to itself
#[derive(Clone, Copy, Debug)]
pub struct N(pub u8);

impl PartialEq for N {
    fn eq(&self, o: &Self) -> bool {
        self.0 != 9 && o.0 != 9 && self.0 == o.0
    }
}
impl PartialOrd for N {
    fn partial_cmp(&self, o: &Self) -> Option<Ordering> {
        if self.0 == 9 || o.0 == 9 {
            None
        } else {
            Some(self.0.cmp(&o.0))
        }
    }
}

// ------------------------------------------------------------------------------------------
// custom methods (deliberately asymmetric so that swapped arguments show)

pub fn eq_asym(a: &V, b: &V) -> bool {
    a.0 + 1 == b.0
}
/// lawful (equivalence relation): equality of parity
pub fn eq_par(a: &V, b: &V) -> bool {
    a.0 % 2 == b.0 % 2
}
/// method given next to `ignore`: must never be called
pub fn eq_poison(_: &I, _: &I) -> bool {
    panic!("POISON: the method of an ignored field was called")
}
pub fn hash_poison<H: Hasher>(_: &I, _: &mut H) {
    panic!("POISON: the method of an ignored field was called")
}
pub fn cmp_poison(_: &I, _: &I) -> Ordering {
    panic!("POISON: the method of an ignored field was called")
}
pub fn pcmp_poison(_: &I, _: &I) -> Option<Ordering> {
    panic!("POISON: the method of an ignored field was called")
}
pub fn fmt_poison(_: &ID, _: &mut fmt::Formatter<'_>) -> fmt::Result {
    panic!("POISON: the method of an ignored field was called")
}
/// asymmetric comparison: compares a+1 with b (so cmp_asym(x, x) == Greater)
pub fn cmp_asym(a: &V, b: &V) -> Ordering {
    (a.0 + 1).cmp(&b.0)
}
pub fn pcmp_asym(a: &V, b: &V) -> Option<Ordering> {
    Some((a.0 + 1).cmp(&b.0))
}
pub fn pcmp_asym_n(a: &N, b: &N) -> Option<Ordering> {
    if a.0 == 9 || b.0 == 9 {
        None
    } else {
        Some((a.0 + 1).cmp(&b.0))
    }
}
/// lawful reversed order
pub fn cmp_rev(a: &V, b: &V) -> Ordering {
    b.0.cmp(&a.0)
}
pub fn pcmp_rev(a: &V, b: &V) -> Option<Ordering> {
    Some(b.0.cmp(&a.0))
}
pub fn pcmp_rev_n(a: &N, b: &N) -> Option<Ordering> {
    if a.0 == 9 || b.0 == 9 {
        None
    } else {
        Some(b.0.cmp(&a.0))
    }
}

// ------------------------------------------------------------------------------------------
// generic drivers (kept out of the per-case code so that cases stay small)

pub fn ord_code(o: Option<Ordering>) -> u64 {
    match o {
        None => 0,
        Some(Ordering::Less) => 1,
        Some(Ordering::Equal) => 2,
        Some(Ordering::Greater) => 3,
    }
}

/// C02: `==` / `!=` against the model on all ordered pairs
pub fn eq_pairs<T: fmt::Debug>(
    r: &mut Rep,
    vs: &[T],
    eq: &dyn Fn(&T, &T) -> bool,
    ne: &dyn Fn(&T, &T) -> bool,
    model: &dyn Fn(&T, &T) -> bool,
) {
    for a in vs {
        for b in vs {
            let want = model(a, b);
            match guarded(|| (eq(a, b), ne(a, b))) {
                Ok((e, n)) => {
                    r.ck(e == want, want as u64, &|| format!("eq: {:?} == {:?} gave {} but the model says {}", a, b, e, want));
                    r.ck(n == !want, 2 + want as u64, &|| format!("ne: {:?} != {:?} gave {} but the model says {}", a, b, n, !want));
                }
                Err(p) => {
                    r.ck(false, 9, &|| format!("eq: {:?} == {:?} panicked: {}", a, b, p));
                }
            }
        }
    }
}

/// C02: reflexive, symmetric, transitive on all triples
pub fn eq_laws<T: fmt::Debug>(r: &mut Rep, vs: &[T], eq: &dyn Fn(&T, &T) -> bool) {
    for a in vs {
        r.ck(eq(a, a), 0, &|| format!("law: reflexivity fails for {:?}", a));
        for b in vs {
            let ab = eq(a, b);
            r.ck(ab == eq(b, a), 1 + ab as u64, &|| format!("law: symmetry fails for {:?}, {:?}", a, b));
            if ab {
                for c in vs {
                    if eq(b, c) {
                        r.ck(eq(a, c), 3, &|| format!("law: transitivity fails for {:?}, {:?}, {:?}", a, b, c));
                    }
                }
            }
        }
    }
}

// ------------------------------------------------------------------------------------------
// C03 / C04 drivers

/// model-side comparison of the NaN-like scalar (independent re-statement of N's semantics)
pub fn n_pcmp(a: &N, b: &N) -> Option<Ordering> {
    if a.0 == 9 || b.0 == 9 { None } else { Some(a.0.cmp(&b.0)) }
}

/// lexicographic fold used by the models: first result that is not Some(Equal), else Some(Equal)
pub fn lex(steps: &[Option<Ordering>]) -> Option<Ordering> {
    for s in steps {
        match s {
            Some(Ordering::Equal) => {}
            o => return *o,
        }
    }
    Some(Ordering::Equal)
}

pub fn ord_pairs<T: fmt::Debug>(
    r: &mut Rep,
    vs: &[T],
    pcmp: &dyn Fn(&T, &T) -> Option<Ordering>,
    cmp: Option<&dyn Fn(&T, &T) -> Ordering>,
    model: &dyn Fn(&T, &T) -> Option<Ordering>,
    ops: &dyn Fn(&T, &T) -> (bool, bool, bool, bool),
) {
    for a in vs {
        for b in vs {
            let want = model(a, b);
            match guarded(|| (pcmp(a, b), cmp.map(|c| c(a, b)), ops(a, b))) {
                Ok((p, c, (lt, le, gt, ge))) => {
                    r.ck(p == want, ord_code(want), &|| format!("partial_cmp({:?}, {:?}) = {:?}, model {:?}", a, b, p, want));
                    if let Some(c) = c {
                        r.ck(Some(c) == want, 4 + ord_code(want), &|| format!("cmp({:?}, {:?}) = {:?}, model {:?}", a, b, c, want));
                        r.ck(p == Some(c), 8, &|| format!("partial_cmp({:?}, {:?}) = {:?} but cmp = {:?}", a, b, p, c));
                    }
                    let exp = (want == Some(Ordering::Less), matches!(want, Some(Ordering::Less | Ordering::Equal)),
                               want == Some(Ordering::Greater), matches!(want, Some(Ordering::Greater | Ordering::Equal)));
                    r.ck((lt, le, gt, ge) == exp, 9, &|| format!("operators on ({:?}, {:?}) = {:?}, model {:?}", a, b, (lt, le, gt, ge), exp));
                }
                Err(p) => r.ck(false, 99, &|| format!("comparison of ({:?}, {:?}) panicked: {}", a, b, p)),
            }
        }
    }
}

/// total order laws on all triples
pub fn ord_laws<T: fmt::Debug>(r: &mut Rep, vs: &[T], cmp: &dyn Fn(&T, &T) -> Ordering) {
    for a in vs {
        r.ck(cmp(a, a) == Ordering::Equal, 0, &|| format!("law: cmp(a, a) != Equal for {:?}", a));
        for b in vs {
            let ab = cmp(a, b);
            r.ck(ab == cmp(b, a).reverse(), 1, &|| format!("law: antisymmetry fails for {:?}, {:?}", a, b));
            for c in vs {
                let bc = cmp(b, c);
                if ab != Ordering::Greater && bc != Ordering::Greater {
                    let ac = cmp(a, c);
                    let want_strict = ab == Ordering::Less || bc == Ordering::Less;
                    r.ck(if want_strict { ac == Ordering::Less } else { ac == Ordering::Equal }, 2,
                         &|| format!("law: transitivity fails for {:?}, {:?}, {:?}", a, b, c));
                }
            }
        }
    }
}

/// partial order laws (duality, transitivity of <) on all triples
pub fn pord_laws<T: fmt::Debug>(r: &mut Rep, vs: &[T], pcmp: &dyn Fn(&T, &T) -> Option<Ordering>) {
    for a in vs {
        for b in vs {
            let ab = pcmp(a, b);
            r.ck(ab == pcmp(b, a).map(|o| o.reverse()), 1, &|| format!("law: duality fails for {:?}, {:?}", a, b));
            if ab == Some(Ordering::Less) {
                for c in vs {
                    if pcmp(b, c) == Some(Ordering::Less) {
                        r.ck(pcmp(a, c) == Some(Ordering::Less), 2, &|| format!("law: transitivity of < fails for {:?}, {:?}, {:?}", a, b, c));
                    }
                }
            }
        }
    }
}

// ------------------------------------------------------------------------------------------
// C05: recording hasher

pub struct RecH(pub Vec<String>);

impl RecH {
    pub fn new() -> Self {
        RecH(Vec::new())
    }
}

macro_rules! rec_write {
    ($($name:ident : $t:ty),*) => { $( fn $name(&mut self, i: $t) { self.0.push(format!("{}:{}", stringify!($t), i)); } )* };
}

impl Hasher for RecH {
    fn finish(&self) -> u64 {
        0
    }
    fn write(&mut self, bytes: &[u8]) {
        self.0.push(format!("bytes:{:?}", bytes));
    }
    rec_write!(write_u8: u8, write_u16: u16, write_u32: u32, write_u64: u64, write_u128: u128, write_usize: usize,
               write_i8: i8, write_i16: i16, write_i32: i32, write_i64: i64, write_i128: i128, write_isize: isize);
}

pub fn trace_of<T: Hash>(x: &T) -> Result<Vec<String>, String> {
    guarded(|| {
        let mut h = RecH::new();
        x.hash(&mut h);
        h.0
    })
}

/// custom hash method: feeds a tagged u16 (distinguishable from V's own write_u8)
pub fn hash_m<H: Hasher>(v: &V, state: &mut H) {
    state.write_u16(0x100 + v.0 as u16);
}
/// equality used next to hash_m when PartialEq is educed with the same choices
pub fn eq_same(a: &V, b: &V) -> bool {
    a.0 == b.0
}

/// info(x) = (variant index, modelled field traces in declaration order, key = variant + non-ignored field values)
pub fn hash_check<T: fmt::Debug + Hash>(
    r: &mut Rep,
    vs: &[T],
    info: &dyn Fn(&T) -> (usize, Vec<String>, Vec<u8>),
    eq: Option<&dyn Fn(&T, &T) -> bool>,
    is_struct: bool,
) {
    let mut traces = Vec::new();
    let mut prefixes: Vec<(usize, Vec<String>)> = Vec::new();
    for x in vs {
        let (vi, ft, _) = info(x);
        match trace_of(x) {
            Ok(t) => {
                let ok = t.len() >= ft.len() && t[t.len() - ft.len()..] == ft[..];
                r.ck(ok, 10, &|| format!("hash({:?}) fed {:?}, which does not end with the modelled field data {:?}", x, t, ft));
                if ok {
                    let p = t[..t.len() - ft.len()].to_vec();
                    if let Some((_, q)) = prefixes.iter().find(|(v, _)| *v == vi) {
                        r.ck(*q == p, 11, &|| format!("hash({:?}): data fed before the fields {:?} differs from {:?} fed for another value of the same variant", x, p, q));
                    } else {
                        prefixes.push((vi, p));
                    }
                }
                traces.push(Some(t));
            }
            Err(p) => {
                r.ck(false, 99, &|| format!("hash({:?}) panicked: {}", x, p));
                traces.push(None);
            }
        }
    }
    let _ = is_struct;
    for (i, a) in vs.iter().enumerate() {
        for (j, b) in vs.iter().enumerate() {
            if let (Some(ta), Some(tb)) = (&traces[i], &traces[j]) {
                let same_key = info(a).2 == info(b).2;
                r.ck((ta == tb) == same_key, same_key as u64,
                     &|| format!("hash: {:?} and {:?} {} on variant and non-ignored fields but fed {:?} and {:?}", a, b,
                                 if same_key { "agree" } else { "differ" }, ta, tb));
                if let Some(eq) = eq {
                    match guarded(|| eq(a, b)) {
                        Ok(e) => r.ck(!e || ta == tb, 2 + e as u64, &|| format!("hash: {:?} == {:?} but they feed different data {:?} / {:?}", a, b, ta, tb)),
                        Err(p) => r.ck(false, 98, &|| format!("eq({:?}, {:?}) panicked: {}", a, b, p)),
                    }
                }
            }
        }
    }
}

// ------------------------------------------------------------------------------------------
// compile-time trait-resolution probe: probe!(Type: Trait) -> bool (inherent const beats blanket trait const)

macro_rules! probe {
    ($t:ty : $($tr:tt)+) => {{
        struct P<T: ?Sized>(::core::marker::PhantomData<T>);
        #[allow(dead_code)]
        trait Fallback { const YES: bool = false; }
        impl<T: ?Sized> Fallback for P<T> {}
        #[allow(dead_code)]
        impl<T: ?Sized + $($tr)+> P<T> { const YES: bool = true; }
        <P<$t>>::YES
    }};
}
pub(crate) use probe;

// ------------------------------------------------------------------------------------------
// C07: instrumented Copy type with an observable Clone

thread_local! {
    pub static OWN_CALLS: Cell<u32> = Cell::new(0);
    pub static METHOD_CALLS: Cell<u32> = Cell::new(0);
}

/// `how`: 0 = original / bitwise copy, 1 = produced by K's own Clone::clone, 2 = produced by the custom method
#[derive(Copy, Debug, PartialEq, Eq)]
pub struct K {
    pub val: u8,
    pub how: u8,
}

#[allow(clippy::expl_impl_clone_on_copy)]
impl Clone for K {
    fn clone(&self) -> Self {
        OWN_CALLS.with(|c| c.set(c.get() + 1));
        K { val: self.val, how: 1 }
    }
}

pub fn k(val: u8) -> K {
    K { val, how: 0 }
}

pub fn clone_m(x: &K) -> K {
    METHOD_CALLS.with(|c| c.set(c.get() + 1));
    K { val: x.val, how: 2 }
}

pub fn reset_calls() {
    OWN_CALLS.with(|c| c.set(0));
    METHOD_CALLS.with(|c| c.set(0));
}
pub fn calls() -> (u32, u32) {
    (OWN_CALLS.with(|c| c.get()), METHOD_CALLS.with(|c| c.get()))
}

/// fp(x) = (variant, [(val, how)] per field); hows(variant) = modelled `how` per field after a clone;
/// n = number of values, mk(i) builds the i-th value afresh (fields with how = 0)
pub fn clone_check<T>(
    r: &mut Rep,
    n: usize,
    mk: &dyn Fn(usize) -> T,
    fp: &dyn Fn(&T) -> (usize, Vec<(u8, u8)>),
    hows: &dyn Fn(usize) -> Vec<u8>,
    clone: &dyn Fn(&T) -> T,
    clone_from: &dyn Fn(&mut T, &T),
) {
    let expect = |src: &(usize, Vec<(u8, u8)>)| -> ((usize, Vec<(u8, u8)>), (u32, u32)) {
        let h = hows(src.0);
        let f: Vec<(u8, u8)> = src.1.iter().zip(h.iter()).map(|((v, _), h)| (*v, *h)).collect();
        let own = h.iter().filter(|x| **x == 1).count() as u32;
        let met = h.iter().filter(|x| **x == 2).count() as u32;
        ((src.0, f), (own, met))
    };
    for i in 0..n {
        let x = mk(i);
        let src = fp(&x);
        let (want, want_calls) = expect(&src);
        reset_calls();
        match guarded(|| clone(&x)) {
            Ok(y) => {
                let got_calls = calls();
                let got = fp(&y);
                r.ck(got == want, 0, &|| format!("clone of {:?} gave {:?}, model {:?}", src, got, want));
                r.ck(got_calls == want_calls, 1, &|| format!("clone of {:?} applied (own Clone, method) {:?} times, model {:?}", src, got_calls, want_calls));
                r.ck(fp(&x) == src, 2, &|| format!("clone changed its source {:?}", src));
            }
            Err(p) => r.ck(false, 99, &|| format!("clone of {:?} panicked: {}", src, p)),
        }
        for j in 0..n {
            let mut a = mk(j);
            let before = fp(&a);
            reset_calls();
            match guarded(|| clone_from(&mut a, &x)) {
                Ok(()) => {
                    let got_calls = calls();
                    let got = fp(&a);
                    r.ck(got == want, 3 + (before.0 == src.0) as u64,
                         &|| format!("after a.clone_from(&b) with a = {:?}, b = {:?}: a = {:?}, but b.clone() is modelled as {:?}", before, src, got, want));
                    r.ck(got_calls == want_calls, 5, &|| format!("a.clone_from(&b) with a = {:?}, b = {:?} applied (own Clone, method) {:?} times, model {:?}", before, src, got_calls, want_calls));
                    r.ck(fp(&x) == src, 6, &|| format!("clone_from changed its source {:?}", src));
                }
                Err(p) => r.ck(false, 98, &|| format!("clone_from({:?}, {:?}) panicked: {}", before, src, p)),
            }
        }
    }
}

// ------------------------------------------------------------------------------------------
// C10: conversion targets

#[derive(Clone, Copy, Debug, PartialEq, Eq)]
pub struct W(pub u32);
impl From<u8> for W { fn from(x: u8) -> W { W(x as u32) } }
impl From<u16> for W { fn from(x: u16) -> W { W(x as u32) } }
impl From<u32> for W { fn from(x: u32) -> W { W(x) } }

pub trait Num: Sized {
    fn to_n(&self) -> u32;
    fn from_n(n: u32) -> Self;
}
impl Num for u8 { fn to_n(&self) -> u32 { *self as u32 } fn from_n(n: u32) -> Self { n as u8 } }
impl Num for u16 { fn to_n(&self) -> u32 { *self as u32 } fn from_n(n: u32) -> Self { n as u16 } }
impl Num for u32 { fn to_n(&self) -> u32 { *self } fn from_n(n: u32) -> Self { n } }
impl Num for W { fn to_n(&self) -> u32 { self.0 } fn from_n(n: u32) -> Self { W(n) } }
impl Num for &'static str {
    fn to_n(&self) -> u32 { self.parse().unwrap() }
    fn from_n(n: u32) -> Self { Box::leak(format!("{}", n).into_boxed_str()) }
}
/// custom conversion method: adds a recognisable offset
pub fn conv_m<A: Num, B: Num>(a: A) -> B {
    B::from_n(a.to_n() + 100)
}

// ------------------------------------------------------------------------------------------
// C08: user types reachable from literals by Into

#[derive(Clone, Copy, Debug, PartialEq, Default)]
pub struct DI(pub i64);
impl From<i32> for DI { fn from(x: i32) -> DI { DI(x as i64 + 1000) } }
#[derive(Clone, Copy, Debug, PartialEq, Default)]
pub struct DF(pub f64);
impl From<f64> for DF { fn from(x: f64) -> DF { DF(x + 1000.0) } }
#[derive(Clone, Copy, Debug, PartialEq, Default)]
pub struct DB(pub u8);
impl From<bool> for DB { fn from(x: bool) -> DB { DB(10 + x as u8) } }
pub const K7: u8 = 7;
pub fn mk_v(n: u8) -> V { V(n) }

// ------------------------------------------------------------------------------------------
// C06: Debug helpers

/// type for ignored positions under Debug: formatting it panics
#[derive(Clone, Copy, PartialEq)]
pub struct ID(pub u8);
impl fmt::Debug for ID {
    fn fmt(&self, _: &mut fmt::Formatter<'_>) -> fmt::Result {
        panic!("POISON: ignored field formatted")
    }
}

#[derive(Clone, Debug, PartialEq)]
pub struct Nest {
    pub a: u8,
    pub b: Vec<u8>,
}
pub fn nest(a: u8) -> Nest {
    Nest { a, b: vec![a, a + 1] }
}

/// custom format method
pub fn fmt_m<T: fmt::Debug>(v: &T, f: &mut fmt::Formatter<'_>) -> fmt::Result {
    f.write_str("<")?;
    fmt::Debug::fmt(v, f)?;
    f.write_str(">")
}

pub struct Raw(pub &'static str);
impl fmt::Debug for Raw {
    fn fmt(&self, f: &mut fmt::Formatter<'_>) -> fmt::Result {
        f.write_str(self.0)
    }
}
/// model-side wrapper that formats through the custom method
pub struct Via<'a, T>(pub &'a T);
impl<'a, T: fmt::Debug> fmt::Debug for Via<'a, T> {
    fn fmt(&self, f: &mut fmt::Formatter<'_>) -> fmt::Result {
        fmt_m(self.0, f)
    }
}
pub struct ModelFmt<'a, T>(pub &'a T, pub fn(&T, &mut fmt::Formatter<'_>) -> fmt::Result);
impl<'a, T> fmt::Debug for ModelFmt<'a, T> {
    fn fmt(&self, f: &mut fmt::Formatter<'_>) -> fmt::Result {
        (self.1)(self.0, f)
    }
}

pub fn debug_check<T>(r: &mut Rep, vs: &[T], got: &dyn Fn(&T, bool) -> String, model: fn(&T, &mut fmt::Formatter<'_>) -> fmt::Result) {
    for (i, x) in vs.iter().enumerate() {
        for alt in [false, true] {
            let want = if alt { format!("{:#?}", ModelFmt(x, model)) } else { format!("{:?}", ModelFmt(x, model)) };
            match guarded(|| got(x, alt)) {
                Ok(g) => r.ck(g == want, alt as u64 + 2 * (i as u64 % 4), &|| format!("value #{} {}: got {:?}, the builders give {:?}", i, if alt { "{:#?}" } else { "{:?}" }, g, want)),
                Err(p) => r.ck(false, 99, &|| format!("value #{} formatting panicked: {}", i, p)),
            }
        }
    }
}

// ------------------------------------------------------------------------------------------
// C20: unions are byte-wise

pub fn slice_trace(bytes: &[u8]) -> Vec<String> {
    let mut h = RecH::new();
    bytes.hash(&mut h);
    h.0
}

pub fn byte_domain(size: usize, full_limit: usize) -> Vec<Vec<u8>> {
    // every pattern when 256^size <= full_limit, else each byte over {0x00, 0x01, 0xFF}
    let mut out: Vec<Vec<u8>> = vec![vec![]];
    let full = (256usize).checked_pow(size as u32).map(|n| n <= full_limit).unwrap_or(false);
    if size > 8 {
        // large values: only the bytes at the ends and in the middle vary (over 00 / FF), the others are a fixed filler
        let probes = [0, 1, size / 2, size - 2, size - 1];
        let mut out = Vec::new();
        for mask in 0..(1u32 << probes.len()) {
            let mut v = vec![0x55u8; size];
            for (k, p) in probes.iter().enumerate() {
                v[*p] = if mask & (1 << k) != 0 { 0xFF } else { 0x00 };
            }
            out.push(v);
        }
        return out;
    }
    for _ in 0..size {
        let mut next = Vec::new();
        for p in &out {
            if full {
                for b in 0..=255u8 {
                    let mut q = p.clone();
                    q.push(b);
                    next.push(q);
                }
            } else {
                let alph: &[u8] = if size <= 4 { &[0x00u8, 0x01, 0xFF] } else { &[0x00u8, 0xFF] };
                for &b in alph {
                    let mut q = p.clone();
                    q.push(b);
                    next.push(q);
                }
            }
        }
        out = next;
    }
    out
}

pub struct UnionOps<'a, T> {
    pub size: usize,
    pub mk: &'a dyn Fn(&[u8]) -> T,
    pub bytes: &'a dyn Fn(&T) -> Vec<u8>,
    pub name: Option<&'static str>,
    pub debug: Option<&'a dyn Fn(&T, bool) -> String>,
    pub eq: Option<&'a dyn Fn(&T, &T) -> bool>,
    pub hash: Option<&'a dyn Fn(&T) -> Vec<String>>,
    pub clone: Option<&'a dyn Fn(&T) -> T>,
}

pub fn union_check<T>(r: &mut Rep, o: &UnionOps<T>, singles_limit: usize, pairs_limit: usize) {
    let singles = byte_domain(o.size, singles_limit);
    for b in &singles {
        let x = (o.mk)(b);
        r.ck((o.bytes)(&x) == *b, 0, &|| format!("harness: bytes {:?} do not round-trip", b));
        if let Some(d) = o.debug {
            for alt in [false, true] {
                let want = match o.name {
                    Some(n) => {
                        struct M<'a>(&'static str, &'a [u8]);
                        impl<'a> fmt::Debug for M<'a> {
                            fn fmt(&self, f: &mut fmt::Formatter<'_>) -> fmt::Result {
                                f.debug_tuple(self.0).field(&self.1).finish()
                            }
                        }
                        if alt { format!("{:#?}", M(n, b)) } else { format!("{:?}", M(n, b)) }
                    }
                    None => if alt { format!("{:#?}", &b[..]) } else { format!("{:?}", &b[..]) },
                };
                let got = d(&x, alt);
                r.ck(got == want, 1 + alt as u64, &|| format!("Debug of bytes {:?}: got {:?}, expected {:?}", b, got, want));
            }
        }
        if let Some(h) = o.hash {
            let got = h(&x);
            let want = slice_trace(b);
            r.ck(got == want, 3, &|| format!("Hash of bytes {:?} fed {:?}, hashing the byte slice feeds {:?}", b, got, want));
        }
        if let Some(c) = o.clone {
            let y = c(&x);
            r.ck((o.bytes)(&y) == *b, 4, &|| format!("clone of bytes {:?} has bytes {:?}", b, (o.bytes)(&y)));
        }
    }
    if let Some(e) = o.eq {
        let dom = byte_domain(o.size, pairs_limit);
        for a in &dom {
            let x = (o.mk)(a);
            for b in &dom {
                let y = (o.mk)(b);
                let got = e(&x, &y);
                r.ck(got == (a == b), 5 + (a == b) as u64, &|| format!("{:?} == {:?} gave {}", a, b, got));
            }
        }
    }
}

// ------------------------------------------------------------------------------------------
// C04: payloads with niches, neighbour bytes

pub static S1: u8 = 1;
pub static S200: u8 = 200;
#[derive(Clone, Copy, Debug, PartialEq, Eq, PartialOrd, Ord)]
pub enum Inner { A, B, C }
pub fn nz(n: u8) -> std::num::NonZeroU8 { std::num::NonZeroU8::new(n).unwrap() }

#[repr(C)]
pub struct Wrap<T> {
    pub pre: [u8; 16],
    pub v: T,
    pub post: [u8; 16],
}

/// the comparison result must not depend on where the operands live or on what lies next to them
pub fn neighbour_pairs<T: Clone + fmt::Debug>(
    r: &mut Rep,
    vs: &[T],
    pcmp: &dyn Fn(&T, &T) -> Option<Ordering>,
    model: &dyn Fn(&T, &T) -> Option<Ordering>,
) {
    for a in vs {
        for b in vs {
            let want = model(a, b);
            for (fa, fb) in [(0x00u8, 0xFFu8), (0xFF, 0x00), (0x55, 0x55), (0xFF, 0xFF), (0x00, 0x00)] {
                let wa = Wrap { pre: [fa; 16], v: a.clone(), post: [fa; 16] };
                let wb = Wrap { pre: [fb; 16], v: b.clone(), post: [fb; 16] };
                let got = pcmp(&wa.v, &wb.v);
                r.ck(got == want, 16 + ord_code(want), &|| format!("partial_cmp({:?}, {:?}) = {:?} next to bytes {:#x}/{:#x}, model {:?}", a, b, got, fa, fb, want));
                std::hint::black_box((&wa.pre, &wa.post, &wb.pre, &wb.post));
            }
            let (ba, bb) = (Box::new(a.clone()), Box::new(b.clone()));
            let got = pcmp(&ba, &bb);
            r.ck(got == want, 20, &|| format!("partial_cmp({:?}, {:?}) = {:?} in exact-size boxes, model {:?}", a, b, got, want));
        }
    }
}

// ------------------------------------------------------------------------------------------
// C11: argument types that do / do not implement the traits, methods that need nothing of their arguments

#[derive(Clone, Copy, Debug, PartialEq, Eq, PartialOrd, Ord, Hash, Default)]
pub struct Yes;
impl From<Yes> for u64 { fn from(_: Yes) -> u64 { 1 } }
impl From<Yes> for u32 { fn from(_: Yes) -> u32 { 1 } }
pub trait Mk {}
impl Mk for Yes {}
pub struct No;
/// a projection the type's own where-clause must make available (C11 / C12: the where-clause is part of every generated impl)
pub trait Pr { type Out; }
impl Pr for Yes { type Out = Yes; }
impl Pr for No { type Out = No; }

pub fn fmt_any<T: ?Sized>(_: &T, f: &mut fmt::Formatter<'_>) -> fmt::Result { f.write_str("_") }
pub fn clone_any<T>(_: &T) -> T { unreachable!() }
pub fn eq_any<T: ?Sized>(_: &T, _: &T) -> bool { true }
pub fn pcmp_any<T: ?Sized>(_: &T, _: &T) -> Option<Ordering> { None }
pub fn cmp_any<T: ?Sized>(_: &T, _: &T) -> Ordering { Ordering::Equal }
pub fn pcmp_same<T: ?Sized>(_: &T, _: &T) -> Option<Ordering> { Some(Ordering::Equal) }
pub fn pcmp_std<T: PartialOrd>(a: &T, b: &T) -> Option<Ordering> { PartialOrd::partial_cmp(a, b) }
pub fn cmp_std<T: Ord>(a: &T, b: &T) -> Ordering { Ord::cmp(a, b) }
pub fn hash_any<T: ?Sized, H: Hasher>(_: &T, _: &mut H) {}
pub fn make_any<T>() -> T { unreachable!() }
pub fn into_any<T, U>(_: T) -> U { unreachable!() }

// ------------------------------------------------------------------------------------------
// a field type whose *inherent* methods are named like the trait methods the templates need and answer differently: generated code that
// uses method-call syntax (`a.ne(&b)`, `x.clone()`, `v.into()`) instead of a path call gets the decoys
#[derive(Debug, Clone, Copy, PartialEq, Eq, PartialOrd, Ord, Hash, Default)]
pub struct InhCore(pub u8);
#[derive(Clone, Copy, PartialEq, Eq, PartialOrd, Ord, Hash, Default)]
pub struct Inh(pub InhCore);
impl fmt::Debug for Inh {
    fn fmt(&self, f: &mut fmt::Formatter<'_>) -> fmt::Result { write!(f, "Inh({})", (self.0).0) }
}
pub fn inh(n: u8) -> Inh { Inh(InhCore(n)) }
impl From<Inh> for u8 { fn from(x: Inh) -> u8 { (x.0).0 } }
impl From<Inh> for u16 { fn from(x: Inh) -> u16 { (x.0).0 as u16 } }
#[allow(clippy::should_implement_trait, clippy::wrong_self_convention)]
impl Inh {
    pub fn eq(&self, _: &Self) -> bool { true }
    pub fn ne(&self, _: &Self) -> bool { false }
    pub fn clone(&self) -> Self { inh(99) }
    pub fn clone_from(&mut self, _: &Self) { *self = inh(98) }
    pub fn cmp(&self, _: &Self) -> Ordering { Ordering::Equal }
    pub fn partial_cmp(&self, _: &Self) -> Option<Ordering> { None }
    pub fn lt(&self, _: &Self) -> bool { false }
    pub fn hash<H: Hasher>(&self, state: &mut H) { state.write_u8(0xAA) }
    pub fn fmt(&self, f: &mut fmt::Formatter<'_>) -> fmt::Result { f.write_str("decoy") }
    pub fn into(self) -> u8 { 200 }
    pub fn default() -> Self { inh(77) }
    pub fn deref(&self) -> &u8 { &7 }
    pub fn to_owned(&self) -> Self { inh(96) }
    pub fn borrow(&self) -> &u8 { &7 }
    pub fn as_ref(&self) -> &u8 { &7 }
}

// ------------------------------------------------------------------------------------------
// C12: a where-clause the type needs in order to be well-formed
pub trait Assoc {
    type Out: fmt::Debug + Clone + PartialEq + Default;
}
impl Assoc for u8 {
    type Out = u16;
}
